from .parser import parse_dump, Module, Func
from .exec import Engine, State, Unsupported, Event
