"""Path-wise symbolic executor for Cranelift IR text (see DESIGN.md section 3).

Values are z3 bit-vectors of the CLIF type's width (floats as IEEE bit patterns). Memory is one
flat z3 array BV64 -> BV8, little endian. Branches on symbolic conditions fork after a feasibility
query on one incremental solver. Local callees run in place; externs become events.
"""
import re
import struct
import time
import z3

from .parser import TY_BITS, INST_RE

BV = z3.BitVecVal


class Unsupported(Exception):
    pass


def fp_sort(bits):
    return z3.Float32() if bits == 32 else z3.Float64()


def simp(x):
    return z3.simplify(x)


def const_of(x):
    """python int if x simplifies to a numeral else None"""
    if z3.is_bv_value(x):
        return x.as_long()
    x = z3.simplify(x)
    if z3.is_bv_value(x):
        return x.as_long()
    return None


class Event(tuple):
    """(name, args) pair that also remembers the memory at the time of the call"""
    def __new__(cls, name, args, mem=None):
        e = super().__new__(cls, (name, args))
        e.mem = mem
        return e


class Region:
    __slots__ = ('lo', 'hi', 'name', 'kind', 'owner')

    def __init__(self, lo, hi, name, kind, owner=None):
        self.lo = lo; self.hi = hi; self.name = name; self.kind = kind; self.owner = owner

    def __repr__(self):
        return 'Region(%#x..%#x %s)' % (self.lo, self.hi, self.name)


class Act:
    """one activation record"""
    def __init__(self, f, base, slot_off, size, depth):
        self.f = f; self.env = {}; self.label = f.order[0]; self.idx = 0
        self.base = base; self.slot_off = slot_off; self.size = size
        self.ret_dsts = None; self.visits = {}; self.depth = depth; self.fid = 0

    def clone(self):
        a = Act.__new__(Act)
        a.f = self.f; a.env = dict(self.env); a.label = self.label; a.idx = self.idx
        a.base = self.base; a.slot_off = self.slot_off; a.size = self.size
        a.ret_dsts = self.ret_dsts; a.visits = dict(self.visits); a.depth = self.depth; a.fid = self.fid
        return a


class State:
    def __init__(self, mem=None):
        self.pc = []              # path condition (list of z3 Bool)
        self.events = []          # (name, [args])
        self.mem = mem if mem is not None else z3.Array('mem0', z3.BitVecSort(64), z3.BitVecSort(8))
        self.stack = []
        self.sp = 0x7fff_0000_0000
        self.regions = []
        self.status = None        # 'ret' | 'exit' | 'trap' | 'bound'
        self.exit_code = None
        self.ret = None
        self.steps = 0
        self.stores = []          # (addr, nbytes, function symbol, inst) in order
        self.loads = []
        self.wild = []

    def clone(self):
        s = State(self.mem)
        s.pc = list(self.pc); s.events = list(self.events)
        s.stack = [a.clone() for a in self.stack]; s.sp = self.sp
        s.regions = list(self.regions); s.steps = self.steps
        s.stores = list(self.stores); s.loads = list(self.loads); s.wild = list(self.wild)
        return s


FUNC_ADDR_BASE = 0x4000_0000
DATA_BASE = 0x1000_0000
DATA_STRIDE = 0x1_0000


class Engine:
    def __init__(self, module, event_funcs=(), max_steps=200000, max_visits=64, max_depth=8,
                 max_paths=20000, track_loads=False, data=None, query_timeout_ms=60000):
        self.m = module
        self.event_funcs = set(event_funcs)     # pretty names (after ::) treated as events
        self.solver = z3.Solver()
        self.solver.set('timeout', query_timeout_ms)
        self.fresh = 0
        self.max_steps = max_steps; self.max_visits = max_visits; self.max_depth = max_depth
        self.max_paths = max_paths
        self.nqueries = 0; self.solver_s = 0.0
        self.steps_total = 0
        self.track_loads = track_loads
        self.data = data or {}                  # symbol -> bytes (initial contents of data objects)
        self.data_addr = {}                     # symbol -> address
        self.data_relocs = {}                   # symbol -> [(offset, target symbol, addend)]: pointers stored in data objects
        self.funcs_run = set()
        self.unknown = 0

    # ---- helpers -------------------------------------------------------------------------
    def fresh_bv(self, hint, bits):
        self.fresh += 1
        return z3.BitVec('%s!%d' % (hint, self.fresh), bits)

    def layout(self, f):
        """explicit stack slots as cranelift-codegen 0.123 machinst/abi.rs places them"""
        off = 0; offs = {}; ends = {}
        names = list(f.slots.keys())
        for ss in names:
            size, align = f.slots[ss]
            a = max(8, align)
            off = (off + a - 1) & ~(a - 1)
            offs[ss] = off
            off += size
        total = (off + 7) & ~7
        for i, ss in enumerate(names):
            ends[ss] = offs[names[i + 1]] if i + 1 < len(names) else total
        return offs, ends, total

    def feasible(self, st, cond):
        cond = simp(cond)
        if z3.is_true(cond):
            return True
        if z3.is_false(cond):
            return False
        self.nqueries += 1
        t0 = time.time()
        self.solver.push(); self.solver.add(*st.pc); self.solver.add(cond)
        r = self.solver.check(); self.solver.pop()
        self.solver_s += time.time() - t0
        if r == z3.unknown:
            self.unknown += 1
            raise Unsupported('solver returned unknown on a feasibility query')
        return r == z3.sat

    def add_region(self, st, size, name, kind='param', lo=None):
        if lo is None:
            st.sp -= size + 64
            st.sp &= ~0xff
            lo = st.sp
        r = Region(lo, lo + size, name, kind)
        st.regions.append(r)
        return r

    def data_address(self, st, sym):
        if sym not in self.data_addr:
            k = len(self.data_addr)
            self.data_addr[sym] = DATA_BASE + DATA_STRIDE * k
        addr = self.data_addr[sym]
        if not any(r.lo == addr for r in st.regions):
            content = self.data.get(sym)
            size = len(content) if content is not None else DATA_STRIDE // 2
            st.regions.append(Region(addr, addr + size, 'data:' + sym, 'data'))
            if content is not None:
                m = st.mem
                for i, b in enumerate(content):
                    m = z3.Store(m, BV(addr + i, 64), BV(b, 8))
                st.mem = m
                for off, tgt, add in self.data_relocs.get(sym, ()):
                    ptr = self.data_address(st, tgt) + add
                    m = st.mem
                    for i in range(8):
                        m = z3.Store(m, BV(addr + off + i, 64), BV((ptr >> (8 * i)) & 0xff, 8))
                    st.mem = m
        return addr

    def push_frame(self, st, fname, args, ret_dsts=None):
        f = self.m.funcs[fname]
        self.funcs_run.add(fname)
        offs, ends, size = self.layout(f)
        st.sp -= size + 64           # gap models return address / saved registers
        st.sp &= ~0xff
        depth = len(st.stack)
        if depth >= self.max_depth:
            raise Unsupported('call depth bound reached in ' + fname)
        act = Act(f, st.sp, offs, size, depth)
        self.fresh += 1
        act.fid = self.fresh
        act.ret_dsts = ret_dsts
        params, _ = f.blocks[act.label]
        if len(params) != len(args):
            raise Unsupported('arity mismatch calling %s: %d params, %d args' % (fname, len(params), len(args)))
        for (v, t), a in zip(params, args):
            if a.size() != TY_BITS[t]:
                raise Unsupported('width mismatch calling %s param %s' % (fname, v))
            act.env[v] = a
        for ss in f.slots:
            st.regions.append(Region(st.sp + offs[ss], st.sp + ends[ss], 'slot:%s:%s' % (fname, ss), 'slot', owner=act.fid))
        st.stack.append(act)

    def inside_formula(self, st, addr, n):
        """z3 Bool (or python bool for concrete addresses): [addr, addr+n) lies inside one non-guard region"""
        c = const_of(addr)
        if c is not None:
            return any(r.lo <= c and c + n <= r.hi for r in st.regions if r.kind != 'guard')
        return z3.Or(*[z3.And(z3.UGE(addr, r.lo), z3.ULE(addr + n, r.hi), z3.ULE(addr, addr + n)) for r in st.regions if r.kind != 'guard'])

    def load(self, st, addr, n, act=None, ins=None):
        addr = simp(addr)
        if self.track_loads:
            st.loads.append((addr, n, act.f.name if act else None, ins, self.inside_formula(st, addr, n)))
        bs = [z3.Select(st.mem, addr + i) for i in range(n)]
        return simp(z3.Concat(*reversed(bs))) if n > 1 else simp(bs[0])

    def store(self, st, addr, val, n, act=None, ins=None):
        addr = simp(addr)
        st.stores.append((addr, n, act.f.name if act else None, ins, self.inside_formula(st, addr, n) if self.track_loads else None))
        self.check_addr(st, addr, n, act, ins)
        m = st.mem
        for i in range(n):
            m = z3.Store(m, simp(addr + i), simp(z3.Extract(8 * i + 7, 8 * i, val)))
        st.mem = m

    def check_addr(self, st, addr, n, act, ins):
        c = const_of(addr)
        if c is not None:
            for r in st.regions:
                if r.lo <= c and c + n <= r.hi:
                    return
            st.wild.append({'addr': '%#x' % c, 'bytes': n, 'func': act.f.name if act else None, 'inst': ins,
                            'regions': [repr(r) for r in st.regions if abs(r.lo - c) < 4096]})
            return
        inside = z3.Or(*[z3.And(z3.UGE(addr, r.lo), z3.ULE(addr + n, r.hi), z3.ULE(addr, addr + n)) for r in st.regions])
        if self.feasible(st, z3.Not(inside)):
            st.wild.append({'addr': str(addr), 'bytes': n, 'func': act.f.name if act else None, 'inst': ins,
                            'regions': None})

    # ---- main loop -----------------------------------------------------------------------
    def run(self, fname, args, st=None):
        st = st or State()
        self.push_frame(st, fname, args)
        work = [st]; done = []
        while work:
            st = work.pop()
            if len(done) + len(work) > self.max_paths:
                raise Unsupported('path bound reached')
            while True:
                act = st.stack[-1]
                params, insts = act.f.blocks[act.label]
                if act.idx >= len(insts):
                    raise Unsupported('fell off block %s in %s' % (act.label, act.f.name))
                ins = insts[act.idx]
                st.steps += 1; self.steps_total += 1
                if st.steps > self.max_steps:
                    st.status = 'bound'; done.append(st); break
                r = self.step(st, act, ins)
                if r is None:
                    act.idx += 1; continue
                k = r[0]
                if k == 'goto':
                    if not self.enter(st, act, r[1], r[2]):
                        st.status = 'bound'; done.append(st); break
                    continue
                if k == 'fork':
                    succs = [(c, l, a) for c, l, a in r[1] if self.feasible(st, c)]
                    if not succs:
                        raise Unsupported('no feasible successor (contradictory path condition)')
                    for i, (cond, label, bargs) in enumerate(succs):
                        s2 = st if i == len(succs) - 1 else st.clone()
                        if len(succs) > 1:
                            s2.pc.append(simp(cond))
                        if not self.enter(s2, s2.stack[-1], label, bargs):
                            s2.status = 'bound'; done.append(s2)
                        else:
                            work.append(s2)
                    break
                if k == 'call':
                    _, callee, cargs, dsts = r
                    act.idx += 1
                    self.push_frame(st, callee, cargs, dsts); continue
                if k == 'return':
                    vals = r[1]
                    fr = st.stack.pop()
                    st.regions = [rg for rg in st.regions if rg.owner != fr.fid]
                    if not st.stack:
                        st.status = 'ret'; st.ret = vals; done.append(st); break
                    caller = st.stack[-1]
                    if len(fr.ret_dsts) != len(vals):
                        raise Unsupported('return arity mismatch from ' + fr.f.name)
                    for d, v in zip(fr.ret_dsts, vals):
                        caller.env[d] = v
                    continue
                if k == 'trap':
                    st.status = 'trap'; done.append(st); break
                if k == 'exit':
                    st.status = 'exit'; st.exit_code = r[1]; done.append(st); break
                raise Unsupported('bad step result')
        return done

    def enter(self, st, act, label, bargs):
        params, _ = act.f.blocks[label]
        if len(params) != len(bargs):
            raise Unsupported('block argument mismatch at %s in %s' % (label, act.f.name))
        n = act.visits.get(label, 0) + 1
        act.visits[label] = n
        if n > self.max_visits:
            return False
        vals = list(bargs)
        for (v, t), a in zip(params, vals):
            act.env[v] = a
        act.label = label; act.idx = 0
        return True

    # ---- one instruction -----------------------------------------------------------------
    def step(self, st, act, ins):
        f = act.f; env = act.env
        m = INST_RE.match(ins)
        dst, op, ty, rest = m.group(1), m.group(2), m.group(3), m.group(4).strip()
        dsts = dst.split(', ') if dst else []

        def V(x):
            x = x.strip()
            hops = 0
            while x in f.aliases and hops < 64:
                x = f.aliases[x]; hops += 1
            if x not in env:
                raise Unsupported('use of undefined value %s in %s' % (x, f.name))
            return env[x]

        def setv(x):
            env[dsts[0]] = x

        def blockcall(s):
            m2 = re.match(r'^(\w+)(?:\((.*)\))?$', s.strip())
            return m2.group(1), ([V(a) for a in m2.group(2).split(',')] if m2.group(2) else [])

        def slotaddr(s):
            m2 = re.match(r'^(ss\d+)(?:([+-]\d+))?$', s.strip())
            if not m2:
                raise Unsupported('bad slot operand: ' + s)
            return BV(act.base + act.slot_off[m2.group(1)] + int(m2.group(2) or 0), 64)

        def memaddr(s):
            m2 = re.match(r'^(v\d+)(?:([+-]\d+))?$', s.strip())
            if not m2:
                raise Unsupported('bad memory operand: ' + s)
            return V(m2.group(1)) + BV(int(m2.group(2) or 0) & (2**64 - 1), 64)

        def imm(s, bits):
            s = s.strip().replace('_', '')
            return BV(int(s, 0) & ((1 << bits) - 1), bits)

        if op == 'iconst':
            setv(imm(rest, TY_BITS[ty])); return
        if op in ('f32const', 'f64const'):
            bits = 32 if op == 'f32const' else 64
            t = rest.strip()
            if t in ('+NaN', 'NaN'):
                x = float('nan')
            elif t in ('-NaN',):
                x = -float('nan')
            elif t in ('+Inf', 'Inf'):
                x = float('inf')
            elif t == '-Inf':
                x = -float('inf')
            elif 'x' in t:
                x = float.fromhex(t)
            else:
                x = float(t.replace('+', ''))
            raw = struct.unpack('<I', struct.pack('<f', x))[0] if bits == 32 else struct.unpack('<Q', struct.pack('<d', x))[0]
            setv(BV(raw, bits)); return
        if op in ('iadd', 'isub', 'imul', 'band', 'bor', 'bxor', 'sdiv', 'udiv', 'srem', 'urem'):
            a, b = [V(x) for x in rest.split(',')]
            if a.size() != b.size():
                raise Unsupported('operand width mismatch: ' + ins)
            r = {'iadd': lambda: a + b, 'isub': lambda: a - b, 'imul': lambda: a * b,
                 'band': lambda: a & b, 'bor': lambda: a | b, 'bxor': lambda: a ^ b,
                 'sdiv': lambda: a / b, 'udiv': lambda: z3.UDiv(a, b),
                 'srem': lambda: z3.SRem(a, b), 'urem': lambda: z3.URem(a, b)}[op]()
            setv(simp(r)); return
        if op in ('ishl', 'ushr', 'sshr', 'rotl', 'rotr'):
            a, b = [V(x) for x in rest.split(',')]
            w = a.size()
            b = z3.ZeroExt(w - b.size(), b) if b.size() < w else (z3.Extract(w - 1, 0, b) if b.size() > w else b)
            b = b & (w - 1)
            r = {'ishl': lambda: a << b, 'ushr': lambda: z3.LShR(a, b), 'sshr': lambda: a >> b,
                 'rotl': lambda: z3.RotateLeft(a, b), 'rotr': lambda: z3.RotateRight(a, b)}[op]()
            setv(simp(r)); return
        if op in ('ishl_imm', 'ushr_imm', 'sshr_imm'):
            a, i = rest.split(','); a = V(a); w = a.size(); b = imm(i, w) & (w - 1)
            setv(simp({'ishl_imm': a << b, 'ushr_imm': z3.LShR(a, b), 'sshr_imm': a >> b}[op])); return
        if op in ('iadd_imm', 'imul_imm', 'band_imm', 'bor_imm', 'bxor_imm', 'irsub_imm', 'udiv_imm', 'sdiv_imm', 'urem_imm', 'srem_imm'):
            a, i = rest.split(','); a = V(a); b = imm(i, a.size())
            r = {'iadd_imm': lambda: a + b, 'imul_imm': lambda: a * b, 'band_imm': lambda: a & b, 'bor_imm': lambda: a | b,
                 'bxor_imm': lambda: a ^ b, 'irsub_imm': lambda: b - a, 'udiv_imm': lambda: z3.UDiv(a, b), 'sdiv_imm': lambda: a / b,
                 'urem_imm': lambda: z3.URem(a, b), 'srem_imm': lambda: z3.SRem(a, b)}[op]()
            setv(simp(r)); return
        if op in ('bnot', 'ineg'):
            a = V(rest); setv(simp(~a if op == 'bnot' else -a)); return
        if op in ('sextend', 'uextend', 'ireduce'):
            a = V(rest); bits = TY_BITS[ty]
            if op == 'ireduce':
                if bits > a.size():
                    raise Unsupported('ireduce to a wider type: ' + ins)
                setv(simp(z3.Extract(bits - 1, 0, a))); return
            if bits < a.size():
                raise Unsupported('extend to a narrower type: ' + ins)
            setv(simp(z3.SignExt(bits - a.size(), a) if op == 'sextend' else z3.ZeroExt(bits - a.size(), a))); return
        if op == 'iconcat':
            lo, hi = [V(x) for x in rest.split(',')]; setv(simp(z3.Concat(hi, lo))); return
        if op == 'isplit':
            a = V(rest); h = a.size() // 2
            env[dsts[0]] = simp(z3.Extract(h - 1, 0, a)); env[dsts[1]] = simp(z3.Extract(2 * h - 1, h, a)); return
        if op in ('icmp', 'icmp_imm'):
            cc, ab = rest.split(None, 1); a, b = [x.strip() for x in ab.split(',')]
            a = V(a); b = V(b) if op == 'icmp' else imm(b, a.size())
            if a.size() != b.size():
                raise Unsupported('icmp width mismatch: ' + ins)
            r = {'eq': lambda: a == b, 'ne': lambda: a != b, 'slt': lambda: a < b, 'sle': lambda: a <= b,
                 'sgt': lambda: a > b, 'sge': lambda: a >= b, 'ult': lambda: z3.ULT(a, b), 'ule': lambda: z3.ULE(a, b),
                 'ugt': lambda: z3.UGT(a, b), 'uge': lambda: z3.UGE(a, b)}[cc]()
            setv(simp(z3.If(r, BV(1, 8), BV(0, 8)))); return
        if op in ('fadd', 'fsub', 'fmul', 'fdiv'):
            a, b = [V(x) for x in rest.split(',')]; s = fp_sort(a.size())
            fa, fb = z3.fpBVToFP(a, s), z3.fpBVToFP(b, s); rm = z3.RNE()
            r = {'fadd': z3.fpAdd, 'fsub': z3.fpSub, 'fmul': z3.fpMul, 'fdiv': z3.fpDiv}[op](rm, fa, fb)
            setv(simp(z3.fpToIEEEBV(r))); return
        if op == 'fneg':
            a = V(rest); setv(simp(a ^ BV(1 << (a.size() - 1), a.size()))); return
        if op == 'fabs':
            a = V(rest); setv(simp(a & BV((1 << (a.size() - 1)) - 1, a.size()))); return
        if op == 'fcmp':
            cc, ab = rest.split(None, 1); a, b = [V(x) for x in ab.split(',')]; s = fp_sort(a.size())
            fa, fb = z3.fpBVToFP(a, s), z3.fpBVToFP(b, s)
            r = {'eq': lambda: z3.fpEQ(fa, fb), 'ne': lambda: z3.Not(z3.fpEQ(fa, fb)), 'lt': lambda: z3.fpLT(fa, fb),
                 'le': lambda: z3.fpLEQ(fa, fb), 'gt': lambda: z3.fpGT(fa, fb), 'ge': lambda: z3.fpGEQ(fa, fb)}[cc]()
            setv(simp(z3.If(r, BV(1, 8), BV(0, 8)))); return
        if op in ('fpromote', 'fdemote'):
            a = V(rest)
            setv(simp(z3.fpToIEEEBV(z3.fpFPToFP(z3.RNE(), z3.fpBVToFP(a, fp_sort(a.size())), fp_sort(TY_BITS[ty]))))); return
        if op in ('fcvt_from_sint', 'fcvt_from_uint'):
            a = V(rest); s = fp_sort(TY_BITS[ty])
            r = z3.fpSignedToFP(z3.RNE(), a, s) if op == 'fcvt_from_sint' else z3.fpUnsignedToFP(z3.RNE(), a, s)
            setv(simp(z3.fpToIEEEBV(r))); return
        if op in ('fcvt_to_sint_sat', 'fcvt_to_uint_sat'):
            a = V(rest); bits = TY_BITS[ty]; fs = fp_sort(a.size()); fa = z3.fpBVToFP(a, fs)
            signed = op == 'fcvt_to_sint_sat'
            lo = -(1 << (bits - 1)) if signed else 0
            hi = (1 << (bits - 1)) - 1 if signed else (1 << bits) - 1
            t = z3.fpRoundToIntegral(z3.RTZ(), fa)
            # both bounds are exactly representable: lo is 0 or -2^k, hi+1 is 2^k
            flo = z3.fpRealToFP(z3.RNE(), z3.RealVal(lo), fs)
            fhi1 = z3.fpRealToFP(z3.RNE(), z3.RealVal(hi + 1), fs)
            conv = z3.fpToSBV(z3.RTZ(), t, z3.BitVecSort(bits)) if signed else z3.fpToUBV(z3.RTZ(), t, z3.BitVecSort(bits))
            r = z3.If(z3.fpIsNaN(fa), BV(0, bits),
                      z3.If(z3.fpLT(t, flo), BV(lo & ((1 << bits) - 1), bits),
                            z3.If(z3.fpGEQ(t, fhi1), BV(hi, bits), conv)))
            setv(simp(r)); return
        if op == 'bitcast':
            a = V(rest.split()[-1])
            if a.size() != TY_BITS[ty]:
                raise Unsupported('bitcast between different widths: ' + ins)
            setv(a); return
        if op == 'select':
            c, a, b = [V(x) for x in rest.split(',')]; setv(simp(z3.If(c != 0, a, b))); return
        if op == 'stack_addr':
            setv(slotaddr(rest)); return
        if op == 'stack_store':
            v, loc = [x.strip() for x in rest.split(',')]; val = V(v)
            if ty and TY_BITS[ty] != val.size():
                raise Unsupported('stack_store type mismatch: ' + ins)
            self.store(st, slotaddr(loc), val, val.size() // 8, act, ins); return
        if op == 'stack_load':
            setv(self.load(st, slotaddr(rest), TY_BITS[ty] // 8, act, ins)); return
        if op == 'store':
            toks = [t.strip() for t in rest.split(',')]
            val = V(toks[0].split()[-1])
            self.store(st, memaddr(toks[1]), val, val.size() // 8, act, ins); return
        if op == 'load':
            setv(self.load(st, memaddr(rest.split()[-1]), TY_BITS[ty] // 8, act, ins)); return
        if op in ('uload8', 'sload8', 'uload16', 'sload16', 'uload32', 'sload32'):
            n = int(re.sub(r'\D', '', op)) // 8
            raw = self.load(st, memaddr(rest.split()[-1]), n, act, ins); bits = TY_BITS[ty]
            setv(simp(z3.SignExt(bits - 8 * n, raw) if op[0] == 's' else z3.ZeroExt(bits - 8 * n, raw))); return
        if op in ('istore8', 'istore16', 'istore32'):
            n = int(re.sub(r'\D', '', op)) // 8
            toks = [t.strip() for t in rest.split(',')]
            val = V(toks[0].split()[-1])
            self.store(st, memaddr(toks[1]), z3.Extract(8 * n - 1, 0, val), n, act, ins); return
        if op == 'jump':
            l, a = blockcall(rest); return ('goto', l, a)
        if op == 'brif':
            parts = _split_top(rest)
            if len(parts) != 3:
                raise Unsupported('bad brif: ' + ins)
            c = V(parts[0]) != 0
            t, ta = blockcall(parts[1]); e, ea = blockcall(parts[2])
            return ('fork', [(c, t, ta), (z3.Not(c), e, ea)])
        if op == 'br_table':
            m2 = re.match(r'^(v\d+),\s*(\w+(?:\(.*?\))?),\s*\[(.*)\]$', rest.strip())
            if not m2:
                raise Unsupported('bad br_table: ' + ins)
            idx = V(m2.group(1)); targets = _split_top(m2.group(3))
            alts = []
            for i, t in enumerate(targets):
                l, a = blockcall(t); alts.append((idx == i, l, a))
            l, a = blockcall(m2.group(2))
            alts.append((z3.UGE(idx, len(targets)), l, a))
            return ('fork', alts)
        if op == 'return':
            return ('return', [V(x) for x in rest.split(',') if x.strip()])
        if op == 'trap':
            return ('trap',)
        if op == 'trapnz' or op == 'trapz':
            c = V(rest.split(',')[0]) != 0
            if op == 'trapz':
                c = z3.Not(c)
            if self.feasible(st, c):
                if self.feasible(st, z3.Not(c)):
                    raise Unsupported('conditional trap on a symbolic condition')
                return ('trap',)
            return
        if op == 'nop':
            return
        if op in ('symbol_value', 'global_value'):
            gv = f.gvs.get(rest.strip())
            m2 = re.match(r'^symbol (colocated )?(\S+)$', gv or '')
            if not m2:
                raise Unsupported('unsupported global value: %s = %s' % (rest, gv))
            ext = f.ext.get(m2.group(2), m2.group(2))
            if ext in self.m.datatable:
                sym = self.m.datatable[ext][0]
                setv(BV(self.data_address(st, sym), 64)); return
            if ext in self.m.functable:
                setv(BV(self.func_address(self.m.functable[ext][0]), 64)); return
            raise Unsupported('unresolved symbol ' + ext)
        if op == 'func_addr':
            ext, sig, coloc = f.fns[rest.strip()]
            name = self.m.functable[ext][0] if ext in self.m.functable else ext
            setv(BV(self.func_address(name), 64)); return
        if op in ('call', 'call_indirect'):
            if op == 'call':
                m2 = re.match(r'^(fn\d+)\((.*)\)$', rest)
                if not m2:
                    raise Unsupported('bad call: ' + ins)
                ext, sig, coloc = f.fns[m2.group(1)]
                name = self.m.functable[ext][0] if ext in self.m.functable else ext
                argtxt = m2.group(2)
            else:
                m2 = re.match(r'^(sig\d+),\s*(v\d+)\((.*)\)$', rest)
                if not m2:
                    raise Unsupported('bad call_indirect: ' + ins)
                sig = m2.group(1)
                target = const_of(V(m2.group(2)))
                if target is None or target not in self.func_by_addr():
                    raise Unsupported('indirect call through a symbolic or unknown pointer')
                name = self.func_by_addr()[target]
                argtxt = m2.group(3)
            args = [V(a) for a in argtxt.split(',')] if argtxt.strip() else []
            return self.do_call(st, act, name, args, dsts, f.sigs[sig])
        raise Unsupported('unsupported instruction: ' + ins)

    # ---- calls ---------------------------------------------------------------------------
    def func_address(self, name):
        if not hasattr(self, '_faddr'):
            self._faddr = {}; self._fby = {}
        if name not in self._faddr:
            a = FUNC_ADDR_BASE + 16 * len(self._faddr)
            self._faddr[name] = a; self._fby[a] = name
        return self._faddr[name]

    def func_by_addr(self):
        if not hasattr(self, '_fby'):
            self._faddr = {}; self._fby = {}
        return self._fby

    def do_call(self, st, act, name, args, dsts, sig):
        env = act.env
        name = {'%Memcpy': 'memcpy', '%Memmove': 'memmove', '%Memset': 'memset'}.get(name, name)
        fn = self.m.funcs.get(name)
        short = fn.pretty.split('::', 1)[-1] if fn is not None and fn.pretty else name
        if fn is not None and short not in self.event_funcs:
            return ('call', name, args, dsts)
        if name == 'exit' and fn is None:
            return ('exit', simp(args[0]))
        if name == 'abort' and fn is None:
            return ('trap',)
        if fn is None and name in ('memcpy', 'memmove', 'memset'):
            # libc block operations with a concrete length, executed on the flat memory
            n = const_of(args[2])
            if n is None or n > 4096:
                raise Unsupported('%s with a symbolic or very large length' % name)
            dst = simp(args[0])
            if name == 'memset':
                byte = simp(z3.Extract(7, 0, args[1]))
                data = [byte] * n
            else:
                src = simp(args[1])
                data = [simp(z3.Select(st.mem, src + k)) for k in range(n)]
                if self.track_loads and n:
                    st.loads.append((src, n, act.f.name, name, self.inside_formula(st, src, n)))
            if n:
                st.stores.append((dst, n, act.f.name, name, self.inside_formula(st, dst, n) if self.track_loads else None))
                self.check_addr(st, dst, n, act, name)
            m = st.mem
            for k in range(n):
                m = z3.Store(m, simp(dst + k), data[k])
            st.mem = m
            if dsts:
                env[dsts[0]] = dst
            return None
        evname = short if fn is not None else name
        ev = Event(evname, [simp(a) for a in args], st.mem)
        st.events.append(ev)
        rets = sig[1]
        if len(rets) != len(dsts):
            raise Unsupported('call result arity mismatch: ' + name)
        ev.rets = []
        for d, (t, _) in zip(dsts, rets):
            env[d] = self.fresh_bv('ret_' + evname, TY_BITS[t])
            ev.rets.append(env[d])
        return None


def _split_top(s, sep=','):
    out, depth, cur = [], 0, ''
    for ch in s:
        if ch in '([':
            depth += 1
        elif ch in ')]':
            depth -= 1
        if ch == sep and depth == 0:
            out.append(cur); cur = ''
        else:
            cur += ch
    if cur.strip():
        out.append(cur)
    return [x.strip() for x in out]
