"""Parser for the Cranelift IR text that `capy build --verbose-binary all` prints.

Two print formats occur: capy's own writer (`(<file>::<name>)` header, symbol name in the
`function` line, named blocks) and Cranelift's raw Display (`<name> ESC[90m<symbol>ESC[0m:` header,
`function u0:0(..)`, `block0`) for compiler-defined builtins and the C `main` wrapper.
The guarded hooks in /repo add `; verif-func`, `; verif-data` and `; verif-ext` lines.
"""
import re

ANSI = re.compile(r'\x1b\[[0-9;]*m')
TY_BITS = {'i8': 8, 'i16': 16, 'i32': 32, 'i64': 64, 'i128': 128, 'f32': 32, 'f64': 64}


class ParseError(Exception):
    pass


class Func:
    def __init__(self, name):
        self.name = name          # linker symbol
        self.pretty = None        # file::name for user functions
        self.params = []          # [(type, purpose|None)]
        self.rets = []
        self.slots = {}           # ssN -> (size, align)  (declaration order kept)
        self.sigs = {}            # sigN -> (params, rets)
        self.fns = {}             # fnN -> (extname 'u0:K', sigN, colocated)
        self.gvs = {}             # gvN -> text
        self.blocks = {}          # label -> (params[(v, ty)], [inst text])
        self.order = []
        self.aliases = {}
        self.ext = {}             # userextnameN -> 'uX:K'
        self.ninst = 0


class Module:
    def __init__(self):
        self.funcs = {}           # symbol -> Func
        self.pretty = {}          # 'file::name' -> symbol
        self.functable = {}       # 'u0:K' -> (symbol, linkage)
        self.datatable = {}       # 'u1:K' -> (symbol, linkage)
        self.noise = []           # lines that were not understood outside functions
        self.opcodes = set()

    def by_pretty(self, name):
        """look a function up by its capy name (`file::name`, or just `name`)"""
        if name in self.pretty:
            return self.pretty[name]
        hits = [s for p, s in self.pretty.items() if p.split('::', 1)[-1] == name]
        if len(hits) != 1:
            raise KeyError('function %r: %d candidates' % (name, len(hits)))
        return hits[0]


def _split_top(s, sep=','):
    out, depth, cur = [], 0, ''
    for ch in s:
        if ch in '([':
            depth += 1
        elif ch in ')]':
            depth -= 1
        if ch == sep and depth == 0:
            out.append(cur); cur = ''
        else:
            cur += ch
    if cur.strip():
        out.append(cur)
    return [x.strip() for x in out]


def parse_abi_params(s):
    """'i64 sret, i32, i64 sarg(24)' -> [('i64','sret'),('i32',None),('i64','sarg(24)')]"""
    res = []
    for p in _split_top(s):
        if not p:
            continue
        toks = p.split(None, 1)
        if toks[0] not in TY_BITS:
            raise ParseError('unknown type in signature: ' + p)
        res.append((toks[0], toks[1].strip() if len(toks) > 1 else None))
    return res


def parse_sig(s):
    m = re.match(r'^\((.*?)\)(?:\s*->\s*(.*?))?\s+(\w+)$', s.strip())
    if not m:
        raise ParseError('bad signature: ' + s)
    return parse_abi_params(m.group(1)), parse_abi_params(m.group(2) or ''), m.group(3)


INST_RE = re.compile(r'^(?:(v\d+(?:, v\d+)*) = )?([a-z_0-9]+)(?:\.([a-z0-9]+))?\s*(.*)$')


def parse_dump(text):
    text = ANSI.sub('', text)
    mod = Module()
    cur = None
    curblock = None
    pretty = None
    rawname = None
    for line in text.splitlines():
        if line.startswith('; verif-func '):
            m = re.match(r'^; verif-func funcid(\d+) = (\S+) (\w+)$', line)
            if not m:
                raise ParseError(line)
            mod.functable['u0:' + m.group(1)] = (m.group(2), m.group(3))
            continue
        if line.startswith('; verif-data '):
            m = re.match(r'^; verif-data dataid(\d+) = (\S+) (\w+)$', line)
            if not m:
                raise ParseError(line)
            mod.datatable['u1:' + m.group(1)] = (m.group(2), m.group(3))
            continue
        if line.startswith('; verif-ext '):
            m = re.match(r'^; verif-ext (\S+) (userextname\d+) = (u\d+:\d+)$', line)
            if not m:
                raise ParseError(line)
            f = mod.funcs.get(m.group(1))
            if f is not None:
                f.ext[m.group(2)] = m.group(3)
            continue
        line = line.split(';')[0].rstrip()
        if not line.strip():
            continue
        if cur is None:
            m = re.match(r'^\((\S+::\S+)\)$', line)
            if m:
                pretty = m.group(1); rawname = None
                continue
            m = re.match(r'^(\S+) (\S+):$', line)
            if m:
                rawname = m.group(2); pretty = None
                continue
            m = re.match(r'^function (\S+?)\((.*?)\)(?:\s*->\s*(.*?))?\s+(\w+)\s*\{$', line)
            if m:
                name = m.group(1)
                if re.match(r'^u\d+:\d+$', name):
                    if rawname is None:
                        raise ParseError('raw function without a name header')
                    name = rawname
                cur = Func(name)
                cur.pretty = pretty
                cur.params = parse_abi_params(m.group(2))
                cur.rets = parse_abi_params(m.group(3) or '')
                pretty = None; rawname = None
                continue
            mod.noise.append(line)
            continue
        if line == '}':
            if cur.name in mod.funcs:
                raise ParseError('function defined twice: ' + cur.name)
            mod.funcs[cur.name] = cur
            if cur.pretty:
                mod.pretty[cur.pretty] = cur.name
            cur = None; curblock = None
            continue
        s = line.strip()
        m = re.match(r'^(ss\d+) = explicit_slot (\d+)(?:, align = (\d+))?$', s)
        if m:
            cur.slots[m.group(1)] = (int(m.group(2)), int(m.group(3) or 1))
            continue
        m = re.match(r'^(sig\d+) = (.*)$', s)
        if m:
            cur.sigs[m.group(1)] = parse_sig(m.group(2))
            continue
        m = re.match(r'^(fn\d+) = (colocated )?(\S+) (sig\d+)$', s)
        if m:
            cur.fns[m.group(1)] = (m.group(3), m.group(4), bool(m.group(2)))
            continue
        m = re.match(r'^(gv\d+) = (.*)$', s)
        if m:
            cur.gvs[m.group(1)] = m.group(2)
            continue
        m = re.match(r'^([A-Za-z_]\w*)(?:\((.*)\))?( cold)?:$', s)
        if m and not re.match(r'^v\d+$', m.group(1)):
            params = []
            if m.group(2):
                for p in m.group(2).split(','):
                    v, t = p.split(':')
                    params.append((v.strip(), t.strip()))
            curblock = m.group(1)
            if curblock in cur.blocks:
                raise ParseError('duplicate block ' + curblock)
            cur.blocks[curblock] = (params, [])
            cur.order.append(curblock)
            continue
        m = re.match(r'^(v\d+) -> (v\d+)$', s)
        if m:
            cur.aliases[m.group(1)] = m.group(2)
            continue
        if curblock is None:
            raise ParseError('instruction outside a block in %s: %s' % (cur.name, s))
        mi = INST_RE.match(s)
        if not mi:
            raise ParseError('unparsable instruction in %s: %s' % (cur.name, s))
        mod.opcodes.add(mi.group(2))
        cur.blocks[curblock][1].append(s)
        cur.ninst += 1
    if cur is not None:
        raise ParseError('unterminated function ' + cur.name)
    return mod
