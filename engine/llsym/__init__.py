from .llsym import Module, Exec, State, PathEnd, Unsupported, is_sym
