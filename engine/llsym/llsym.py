#!/usr/bin/env python3-vt
"""Prototype: path-wise symbolic executor for rustc's (fat-LTO) LLVM IR text. Feasibility probe only."""
import re, sys, time
import z3

sys.setrecursionlimit(10000)

# ---------------------------------------------------------------- lexer
TOK = re.compile(r'''
    \s+ |
    (?P<str>c"(?:[^"\\]|\\[0-9A-Fa-f]{2}|\\\\)*") |
    (?P<lname>%(?:"[^"]*"|[-\w.$]+)) |
    (?P<gname>@(?:"[^"]*"|[-\w.$]+)) |
    (?P<meta>![-\w.]*(?:\([^)]*\))?) |
    (?P<attr>\#\d+) |
    (?P<num>-?\d+\.\d+(?:e[+-]?\d+)?|0x[0-9A-Fa-f]+|-?\d+) |
    (?P<word>[A-Za-z_][\w.]*) |
    (?P<dots>\.\.\.) |
    (?P<p>[()\[\]{}<>,=*:])
''', re.X)


def lex(s):
    out = []
    pos = 0
    while pos < len(s):
        m = TOK.match(s, pos)
        if not m:
            raise SyntaxError('lex: ' + s[pos:pos + 40])
        pos = m.end()
        k = m.lastgroup
        if k is None:
            continue
        out.append((k, m.group(k)))
    return out


# ---------------------------------------------------------------- types
class T:
    pass


class IntT(T):
    def __init__(s, bits): s.bits = bits
    def __repr__(s): return f'i{s.bits}'


class PtrT(T):
    bits = 64
    def __repr__(s): return 'ptr'


class FloatT(T):
    def __init__(s, bits): s.bits = bits
    def __repr__(s): return f'f{s.bits}'


class ArrT(T):
    def __init__(s, n, el): s.n = n; s.el = el
    def __repr__(s): return f'[{s.n} x {s.el}]'


class VecT(T):
    def __init__(s, n, el): s.n = n; s.el = el
    def __repr__(s): return f'<{s.n} x {s.el}>'


class StructT(T):
    def __init__(s, els, packed=False): s.els = els; s.packed = packed
    def __repr__(s): return '{' + ', '.join(map(repr, s.els)) + '}'


class VoidT(T):
    def __repr__(s): return 'void'


class NamedT(T):
    def __init__(s, name): s.name = name
    def __repr__(s): return s.name


PTR = PtrT(); VOID = VoidT()


class Parser:
    def __init__(self, toks, mod):
        self.t = toks; self.i = 0; self.mod = mod

    def peek(self, k=0):
        return self.t[self.i + k] if self.i + k < len(self.t) else (None, None)

    def next(self):
        x = self.t[self.i]; self.i += 1; return x

    def accept(self, val):
        if self.peek()[1] == val:
            self.i += 1; return True
        return False

    def expect(self, val):
        x = self.next()
        if x[1] != val:
            raise SyntaxError(f'expected {val} got {x} in {self.t[max(0,self.i-6):self.i+4]}')

    def at_type(self):
        k, v = self.peek()
        if k == 'word':
            return bool(re.match(r'^(i\d+|ptr|void|float|double|half|x86_fp80|fp128|label|metadata|token)$', v))
        if k == 'lname':
            return v in self.mod.named_types
        return v in ('[', '{', '<')

    def type(self):
        k, v = self.next()
        if k == 'word':
            if v[0] == 'i' and v[1:].isdigit(): t = IntT(int(v[1:]))
            elif v == 'ptr': t = PTR
            elif v == 'void': t = VOID
            elif v == 'float': t = FloatT(32)
            elif v == 'double': t = FloatT(64)
            elif v in ('label', 'metadata', 'token'): t = VOID
            else: raise SyntaxError('type ' + v)
        elif k == 'lname':
            t = NamedT(v)
        elif v == '[':
            n = int(self.next()[1]); self.expect('x'); el = self.type(); self.expect(']'); t = ArrT(n, el)
        elif v == '<':
            if self.peek()[1] == '{':
                self.next(); els = self.typelist('}'); self.expect('>'); t = StructT(els, True)
            else:
                n = int(self.next()[1]); self.expect('x'); el = self.type(); self.expect('>'); t = VecT(n, el)
        elif v == '{':
            t = StructT(self.typelist('}'))
        else:
            raise SyntaxError(f'type? {k} {v}')
        # function type suffix  "void (ptr, ...)"
        if self.peek()[1] == '(' and isinstance(t, (IntT, PtrT, VoidT, FloatT, StructT, NamedT)) and self._looks_like_fnty():
            self.next(); depth = 1
            while depth:
                x = self.next()[1]
                depth += (x == '(') - (x == ')')
        return t

    def _looks_like_fnty(self):
        # after a type, '(' starts a function type only in call instructions: "(ptr, ...)" contains only types
        j = self.i + 1; depth = 1
        while depth and j < len(self.t):
            k, v = self.t[j]
            if v == '(': depth += 1
            elif v == ')': depth -= 1
            elif k in ('lname', 'gname', 'num') and depth == 1 and not (k == 'lname' and v in self.mod.named_types):
                return False
            j += 1
        # must be followed by a callee (@name or %name)
        return j < len(self.t) and self.t[j][0] in ('gname', 'lname')

    def typelist(self, close):
        els = []
        if self.accept(close): return els
        while True:
            els.append(self.type())
            if self.accept(close): return els
            self.expect(',')

    SKIP_WORDS = {'noundef', 'nonnull', 'zeroext', 'signext', 'inreg', 'noalias', 'readonly', 'readnone', 'writeonly', 'nocapture',
                  'returned', 'immarg', 'nofree', 'inbounds', 'nuw', 'nsw', 'exact', 'disjoint', 'nneg', 'samesign', 'volatile',
                  'fastcc', 'tail', 'musttail', 'notail', 'ccc', 'coldcc', 'unnamed_addr', 'local_unnamed_addr', 'internal', 'private',
                  'hidden', 'dso_local', 'allocptr', 'allocalign', 'swiftself', 'nonlazybind', 'nounwind', 'cold', 'preserve_mostcc',
                  'dead_on_unwind', 'writable', 'dead_on_return', 'nnan', 'ninf', 'nsz', 'arcp', 'contract', 'afn', 'reassoc', 'fast', 'atomic', 'weak', 'syncscope'}

    def skip_attrs(self):
        while True:
            k, v = self.peek()
            if k == 'word' and v in self.SKIP_WORDS:
                self.next()
            elif k == 'word' and v in ('align', 'dereferenceable', 'dereferenceable_or_null', 'range', 'captures', 'sret', 'byval', 'initializes', 'memory', 'allockind', 'allocsize', 'alignstack') :
                self.next()
                if self.peek()[1] == '(':
                    depth = 0
                    while True:
                        x = self.next()[1]
                        depth += (x == '(') - (x == ')')
                        if depth == 0: break
                elif self.peek()[0] == 'num':
                    self.next()
            elif k == 'attr':
                self.next()
            else:
                return

    # ---- values (constants or names)
    def value(self, ty):
        k, v = self.next()
        if k == 'lname': return ('l', v)
        if k == 'gname': return ('g', v)
        if k == 'num':
            if isinstance(ty, FloatT):
                return ('c', float_bits(v, ty.bits))
            return ('c', int(v, 0) & ((1 << ty.bits) - 1))
        if k == 'word':
            if v == 'true': return ('c', 1)
            if v == 'false': return ('c', 0)
            if v == 'null': return ('c', 0)
            if v in ('undef', 'poison'): return ('undef', ty)
            if v == 'zeroinitializer': return ('zero', ty)
            if v == 'getelementptr':
                self.skip_attrs(); self.expect('(')
                bt = self.type(); self.expect(',')
                pt = self.type(); base = self.value(pt); idx = []
                while self.accept(','):
                    self.skip_attrs(); it = self.type(); idx.append((it, self.value(it)))
                self.expect(')')
                return ('gep', bt, base, idx)
            if v in ('ptrtoint', 'inttoptr', 'bitcast', 'trunc', 'zext', 'sext', 'addrspacecast'):
                self.expect('('); st = self.type(); x = self.value(st); self.expect('to'); dt = self.type(); self.expect(')')
                return ('cast', v, st, x, dt)
            if v in ('add', 'sub', 'mul', 'xor', 'and', 'or', 'shl', 'lshr'):
                self.skip_attrs(); self.expect('('); t1 = self.type(); a = self.value(t1); self.expect(','); t2 = self.type(); b = self.value(t2); self.expect(')')
                return ('cbin', v, t1, a, b)
            if v == 'splat':
                self.expect('('); t1 = self.type(); a = self.value(t1); self.expect(')')
                return ('splat', ty, a)
            raise SyntaxError('const word ' + v)
        if k == 'str':
            return ('bytes', cstring(v))
        if v == '{' or (v == '<' and self.peek()[1] == '{'):
            packed = v == '<'
            if packed: self.next()
            els = []
            if not self.accept('}'):
                while True:
                    t = self.type(); els.append((t, self.value(t)))
                    if self.accept('}'): break
                    self.expect(',')
            if packed: self.expect('>')
            return ('agg', els)
        if v == '[' or v == '<':
            close = ']' if v == '[' else '>'
            els = []
            if not self.accept(close):
                while True:
                    t = self.type(); els.append((t, self.value(t)))
                    if self.accept(close): break
                    self.expect(',')
            return ('agg', els)
        raise SyntaxError(f'value? {k} {v}')

    def tvalue(self):
        self.skip_attrs()
        t = self.type(); self.skip_attrs()
        return t, self.value(t)


def float_bits(s, bits):
    import struct
    if s.startswith('0x'):
        raw = int(s, 16)
        if bits == 64: return raw
        d = struct.unpack('<d', struct.pack('<Q', raw))[0]
        return struct.unpack('<I', struct.pack('<f', d))[0]
    d = float(s)
    return struct.unpack('<Q', struct.pack('<d', d))[0] if bits == 64 else struct.unpack('<I', struct.pack('<f', d))[0]


def cstring(tok):
    s = tok[2:-1]; out = bytearray(); i = 0
    while i < len(s):
        if s[i] == '\\':
            if s[i + 1] == '\\': out.append(92); i += 2
            else: out.append(int(s[i + 1:i + 3], 16)); i += 3
        else:
            out.append(ord(s[i])); i += 1
    return bytes(out)


# ---------------------------------------------------------------- module
class Fn:
    def __init__(self, name, params, ret):
        self.name = name; self.params = params; self.ret = ret
        self.blocks = {}; self.order = []; self.lines = {}


class Module:
    def __init__(self, path):
        self.named_types = {}; self.globals = {}; self.funcs = {}; self.decls = set()
        self.parse(path)

    def parse(self, path):
        cur = None; blk = None
        with open(path) as fh:
            for line in fh:
                if cur is None:
                    if line.startswith('%') and ' = type ' in line:
                        name, rest = line.split(' = type ', 1)
                        self.named_types[name.strip()] = rest.strip()
                    elif line.startswith('@'):
                        m = re.match(r'^(@(?:"[^"]*"|[-\w.$]+)) = (.*)$', line)
                        self.globals[m.group(1)] = m.group(2)
                    elif line.startswith('define'):
                        m = re.search(r'(@(?:"[^"]*"|[-\w.$]+))\((.*)\)[^()]*\{\s*$', line)
                        name = m.group(1)
                        cur = Fn(name, None, None); cur.header = line
                        blk = None
                    elif line.startswith('declare'):
                        m = re.search(r'(@(?:"[^"]*"|[-\w.$]+))\(', line)
                        self.decls.add(m.group(1))
                else:
                    s = line.strip()
                    if line.startswith('}'):
                        self.funcs[cur.name] = cur; cur = None; continue
                    if not s or s.startswith(';'):
                        continue
                    m = re.match(r'^((?:"[^"]*"|[-\w.$]+)):', line)
                    if m and not line.startswith(' '):
                        blk = '%' + m.group(1); cur.blocks[blk] = []; cur.order.append(blk); continue
                    if blk is None:
                        blk = '%entry0'; cur.blocks[blk] = []; cur.order.append(blk)
                    if cur.blocks[blk] and (s.startswith('to label ') or (cur.blocks[blk][-1].lstrip().startswith(('switch ',)) and ']' not in cur.blocks[blk][-1])):
                        cur.blocks[blk][-1] += ' ' + s
                    else:
                        cur.blocks[blk].append(s)
        # resolve named types lazily

    def resolve(self, t):
        if isinstance(t, NamedT):
            src = self.named_types[t.name]
            if isinstance(src, str):
                p = Parser(lex(src), self); src = p.type(); self.named_types[t.name] = src
            return self.resolve(src)
        return t

    def sizeof(self, t):
        return self.layout(t)[0]

    def layout(self, t):
        """(size, align)"""
        t = self.resolve(t)
        if isinstance(t, IntT):
            b = (t.bits + 7) // 8
            a = 1
            while a < b and a < 16: a *= 2
            if t.bits == 128: a = 16
            return (max(b, 1) if t.bits <= 64 else 16), min(a, 16) if t.bits > 8 else 1
        if isinstance(t, PtrT): return 8, 8
        if isinstance(t, FloatT): return t.bits // 8, t.bits // 8
        if isinstance(t, ArrT):
            s, a = self.layout(t.el); return s * t.n, a
        if isinstance(t, VecT):
            s, a = self.layout(t.el); tot = s * t.n if not (isinstance(t.el, IntT) and t.el.bits == 1) else (t.n + 7) // 8
            return tot, max(1, min(tot, 16))
        if isinstance(t, StructT):
            off = 0; al = 1
            for e in t.els:
                s, a = self.layout(e)
                if t.packed: a = 1
                off = (off + a - 1) // a * a; off += s; al = max(al, a)
            return (off + al - 1) // al * al, al
        raise Exception('layout ' + repr(t))

    def field_off(self, t, idx):
        t = self.resolve(t); off = 0
        for i, e in enumerate(t.els):
            s, a = self.layout(e)
            if t.packed: a = 1
            off = (off + a - 1) // a * a
            if i == idx: return off, e
            off += s
        raise IndexError


# ---------------------------------------------------------------- executor
class PathEnd(Exception):
    def __init__(self, kind, info=None): self.kind = kind; self.info = info


class Unsupported(Exception):
    pass


class ForkOn(Exception):
    def __init__(self, expr, vals): self.expr = expr; self.vals = vals


def is_sym(x): return isinstance(x, z3.ExprRef)


def mask(bits): return (1 << bits) - 1


def tosigned(x, bits): return x - (1 << bits) if x >> (bits - 1) else x


class State:
    def __init__(self):
        self.mem = {}; self.pc = []; self.frames = []; self.heap = 0x10_0000_0000; self.stack = 0x7f00_0000_0000
        self.events = []; self.steps = 0

    def clone(self):
        s = State(); s.mem = dict(self.mem); s.pc = list(self.pc); s.heap = self.heap; s.stack = self.stack
        s.frames = [f.clone() for f in self.frames]; s.events = list(self.events); s.steps = self.steps
        return s


class Frame:
    def __init__(self, fn):
        self.fn = fn; self.env = {}; self.blk = fn.order[0]; self.idx = 0; self.prev = None; self.dst = None; self.sp0 = None
        self.cont = None

    def clone(self):
        f = Frame.__new__(Frame); f.fn = self.fn; f.env = dict(self.env); f.blk = self.blk; f.idx = self.idx
        f.prev = self.prev; f.dst = self.dst; f.sp0 = self.sp0; f.cont = self.cont
        return f


class Exec:
    def __init__(self, mod, max_steps=2_000_000):
        self.m = mod; self.gaddr = {}; self.faddr = {}; self.addrf = {}
        self.gnext = 0x4000_0000; self.fnext = 0x1000
        self.solver = z3.Solver(); self.nq = 0; self.max_steps = max_steps
        self.solver.set('timeout', 60000)
        self.pcache = {}
        self.ginit_mem = {}
        self.called = set()
        self.solver_s = 0.0

    # ---- globals
    def global_addr(self, st, name):
        if name in self.m.funcs or name in self.m.decls:
            if name not in self.faddr:
                self.faddr[name] = self.fnext; self.addrf[self.fnext] = name; self.fnext += 16
            return self.faddr[name]
        if name in self.gaddr:
            return self.gaddr[name]
        src = self.m.globals.get(name)
        if src is None:
            raise Unsupported('unknown global ' + name)
        p = Parser(lex(src), self.m)
        # linkage words
        while p.peek()[0] == 'word' and p.peek()[1] not in ('global', 'constant'):
            p.next()
            if p.peek()[1] == '(':
                while p.next()[1] != ')': pass
        p.next()
        ty = p.type()
        size, align = self.m.layout(ty)
        align = max(align, 16)
        self.gnext = (self.gnext + align - 1) // align * align
        addr = self.gnext; self.gaddr[name] = addr; self.gnext += max(size, 1)
        k, v = p.peek()
        if k is not None and v != ',':
            val = p.value(ty)
            self.write_const(self.ginit_mem, addr, ty, val, st)
        else:
            for i in range(size): self.ginit_mem[addr + i] = 0
        return addr

    def write_const(self, mem, addr, ty, val, st):
        ty = self.m.resolve(ty)
        kind = val[0]
        size = self.m.sizeof(ty)
        if kind in ('zero', 'undef'):
            for i in range(size): mem[addr + i] = 0
        elif kind == 'bytes':
            for i, b in enumerate(val[1]): mem[addr + i] = b
        elif kind == 'agg':
            if isinstance(ty, StructT):
                for i, (t, v) in enumerate(val[1]):
                    off, _ = self.m.field_off(ty, i)
                    self.write_const(mem, addr + off, t, v, st)
            else:
                es = self.m.sizeof(ty.el)
                for i, (t, v) in enumerate(val[1]):
                    self.write_const(mem, addr + i * es, t, v, st)
        else:
            x = self.const(st, None, ty, val)
            for i in range(size): mem[addr + i] = (x >> (8 * i)) & 0xff

    # ---- operand evaluation
    def const(self, st, fr, ty, v):
        k = v[0]
        if k == 'c': return v[1]
        if k == 'l': return fr.env[v[1]]
        if k == 'g': return self.global_addr(st, v[1])
        if k in ('undef', 'zero'):
            t = self.m.resolve(ty)
            if isinstance(t, (StructT, ArrT, VecT)):
                return self.zero_agg(t)
            return 0
        if k == 'gep':
            _, bt, base, idx = v
            a = self.const(st, fr, PTR, base)
            return self.gep(bt, a, [(it, self.const(st, fr, it, iv)) for it, iv in idx])
        if k == 'cast':
            _, op, stt, x, dt = v
            return self.const(st, fr, stt, x)
        if k == 'cbin':
            _, op, t1, a, b = v
            return self.binop(op, t1.bits if not isinstance(t1, PtrT) else 64, self.const(st, fr, t1, a), self.const(st, fr, t1, b))
        if k == 'agg':
            return [self.const(st, fr, t, x) for t, x in v[1]]
        if k == 'splat':
            t = self.m.resolve(v[1]); return [self.const(st, fr, t.el, v[2])] * t.n
        if k == 'bytes':
            return list(v[1])
        raise Unsupported('const ' + k)

    def zero_agg(self, t):
        t = self.m.resolve(t)
        if isinstance(t, StructT): return [self.zero_agg(e) for e in t.els]
        if isinstance(t, (ArrT, VecT)): return [self.zero_agg(t.el) for _ in range(t.n)]
        return 0

    def gep(self, bt, addr, idx):
        cur = bt; first = True
        for it, i in idx:
            if first:
                sz = self.m.sizeof(cur); first = False
                addr = self.add64(addr, self.mul_idx(i, it, sz))
            else:
                c = self.m.resolve(cur)
                if isinstance(c, StructT):
                    off, cur = self.m.field_off(c, i); addr = self.add64(addr, off)
                else:
                    cur = c.el; addr = self.add64(addr, self.mul_idx(i, it, self.m.sizeof(cur)))
        return addr

    def mul_idx(self, i, it, sz):
        bits = it.bits
        if is_sym(i):
            x = z3.SignExt(64 - bits, i) if bits < 64 else i
            return x * sz
        return (tosigned(i, bits) * sz) & mask(64)

    def add64(self, a, b):
        if is_sym(a) or is_sym(b):
            a = a if is_sym(a) else z3.BitVecVal(a, 64); b = b if is_sym(b) else z3.BitVecVal(b, 64)
            return z3.simplify(a + b)
        return (a + b) & mask(64)

    def binop(self, op, bits, a, b):
        if not is_sym(a) and not is_sym(b):
            m = mask(bits)
            if op == 'add': return (a + b) & m
            if op == 'sub': return (a - b) & m
            if op == 'mul': return (a * b) & m
            if op == 'and': return a & b
            if op == 'or': return a | b
            if op == 'xor': return a ^ b
            if op == 'shl': return (a << b) & m if b < bits else 0
            if op == 'lshr': return a >> b if b < bits else 0
            if op == 'ashr': return (tosigned(a, bits) >> min(b, bits - 1)) & m
            if op == 'udiv': return a // b
            if op == 'urem': return a % b
            if op == 'sdiv':
                x, y = tosigned(a, bits), tosigned(b, bits); q = abs(x) // abs(y); q = -q if (x < 0) != (y < 0) else q; return q & m
            if op == 'srem':
                x, y = tosigned(a, bits), tosigned(b, bits); r = abs(x) % abs(y); r = -r if x < 0 else r; return r & m
            raise Unsupported(op)
        a = a if is_sym(a) else z3.BitVecVal(a, bits); b = b if is_sym(b) else z3.BitVecVal(b, bits)
        r = {'add': lambda: a + b, 'sub': lambda: a - b, 'mul': lambda: a * b, 'and': lambda: a & b, 'or': lambda: a | b,
             'xor': lambda: a ^ b, 'shl': lambda: a << b, 'lshr': lambda: z3.LShR(a, b), 'ashr': lambda: a >> b,
             'udiv': lambda: z3.UDiv(a, b), 'urem': lambda: z3.URem(a, b), 'sdiv': lambda: a / b, 'srem': lambda: z3.SRem(a, b)}[op]()
        r = z3.simplify(r)
        return r.as_long() if z3.is_bv_value(r) else r

    def icmp(self, cc, bits, a, b):
        if not is_sym(a) and not is_sym(b):
            if cc[0] == 's': a, b = tosigned(a, bits), tosigned(b, bits)
            return int({'eq': a == b, 'ne': a != b, 'ugt': a > b, 'uge': a >= b, 'ult': a < b, 'ule': a <= b,
                        'sgt': a > b, 'sge': a >= b, 'slt': a < b, 'sle': a <= b}[cc])
        a = a if is_sym(a) else z3.BitVecVal(a, bits); b = b if is_sym(b) else z3.BitVecVal(b, bits)
        r = {'eq': a == b, 'ne': a != b, 'ugt': z3.UGT(a, b), 'uge': z3.UGE(a, b), 'ult': z3.ULT(a, b), 'ule': z3.ULE(a, b),
             'sgt': a > b, 'sge': a >= b, 'slt': a < b, 'sle': a <= b}[cc]
        r = z3.simplify(z3.If(r, z3.BitVecVal(1, 1), z3.BitVecVal(0, 1)))
        return r.as_long() if z3.is_bv_value(r) else r

    # ---- memory
    def rd(self, st, addr):
        if addr in st.mem: return st.mem[addr]
        if addr in self.ginit_mem: return self.ginit_mem[addr]
        return 0  # uninitialised memory reads as 0 in the prototype

    def enum_vals(self, st, x, limit):
        self.solver.push(); self.solver.add(*st.pc)
        vals = []
        try:
            while len(vals) <= limit:
                r_ = self.solver.check()
                if r_ == z3.unknown: raise Unsupported('solver returned unknown while enumerating values')
                if r_ != z3.sat: break
                v = self.solver.model().eval(x, model_completion=True).as_long()
                vals.append(v); self.solver.add(x != v)
        finally:
            self.solver.pop()
        return vals

    def load(self, st, addr, ty):
        ty = self.m.resolve(ty)
        if is_sym(addr):
            addr = z3.simplify(addr)
            if not z3.is_bv_value(addr) and not isinstance(ty, (StructT, ArrT, VecT)):
                vals = self.enum_vals(st, addr, 512)
                if not vals: raise PathEnd('infeasible')
                if len(vals) > 512: raise Unsupported(f'symbolic load address with >512 values: {addr}')
                if len(vals) > 1:
                    bits = ty.bits
                    res = None
                    for v in vals:
                        x = self.load(st, v, ty)
                        x = x if is_sym(x) else z3.BitVecVal(x, bits)
                        res = x if res is None else z3.If(addr == v, x, res)
                    return z3.simplify(res)
                addr = vals[0]
        addr = self.concretize(st, addr)
        if isinstance(ty, (StructT, ArrT, VecT)):
            if isinstance(ty, StructT):
                return [self.load(st, addr + self.m.field_off(ty, i)[0], e) for i, e in enumerate(ty.els)]
            es = self.m.sizeof(ty.el)
            return [self.load(st, addr + i * es, ty.el) for i in range(ty.n)]
        n = self.m.sizeof(ty)
        bs = [self.rd(st, addr + i) for i in range(n)]
        bits = ty.bits
        if all(not is_sym(b) for b in bs):
            v = 0
            for i, b in enumerate(bs): v |= b << (8 * i)
            return v & mask(bits)
        zs = [b if is_sym(b) else z3.BitVecVal(b, 8) for b in bs]
        v = z3.Concat(*reversed(zs)) if n > 1 else zs[0]
        if bits < 8 * n: v = z3.Extract(bits - 1, 0, v)
        return z3.simplify(v)

    def store(self, st, addr, ty, val):
        ty = self.m.resolve(ty)
        addr = self.concretize(st, addr)
        if isinstance(ty, StructT):
            for i, e in enumerate(ty.els): self.store(st, addr + self.m.field_off(ty, i)[0], e, val[i])
            return
        if isinstance(ty, (ArrT, VecT)):
            es = self.m.sizeof(ty.el)
            for i in range(ty.n): self.store(st, addr + i * es, ty.el, val[i])
            return
        n = self.m.sizeof(ty); bits = ty.bits
        if is_sym(val):
            if bits < 8 * n: val = z3.ZeroExt(8 * n - bits, val)
            for i in range(n):
                b = z3.simplify(z3.Extract(8 * i + 7, 8 * i, val))
                st.mem[addr + i] = b.as_long() if z3.is_bv_value(b) else b
        else:
            for i in range(n): st.mem[addr + i] = (val >> (8 * i)) & 0xff

    def concretize(self, st, x, what='address'):
        if not is_sym(x): return x
        x = z3.simplify(x)
        if z3.is_bv_value(x): return x.as_long()
        # unique value?
        self.solver.push(); self.solver.add(*st.pc)
        try:
            r_ = self.solver.check()
            if r_ == z3.unknown: raise Unsupported('solver returned unknown while concretising')
            if r_ != z3.sat: raise PathEnd('infeasible')
            v = self.solver.model().eval(x, model_completion=True).as_long()
            vals = [v]
            while len(vals) <= 64:
                self.solver.add(x != vals[-1])
                r_ = self.solver.check()
                if r_ == z3.unknown: raise Unsupported('solver returned unknown while concretising')
                if r_ != z3.sat: break
                vals.append(self.solver.model().eval(x, model_completion=True).as_long())
            if len(vals) == 1:
                return v
            if len(vals) > 64:
                raise Unsupported(f'symbolic {what} with >64 values: {x}')
        finally:
            self.solver.pop()
        raise ForkOn(x, vals)

    def feasible(self, st, cond):
        self.nq += 1
        t0 = time.time()
        self.solver.push(); self.solver.add(*st.pc); self.solver.add(cond)
        r = self.solver.check(); self.solver.pop()
        self.solver_s += time.time() - t0
        if r == z3.unknown:
            raise Unsupported('solver returned unknown on a feasibility query')
        return r == z3.sat

    # ---- running
    def call(self, st, name, args, dst=None):
        fn = self.m.funcs[name]
        self.called.add(name)
        fr = Frame(fn); fr.dst = dst; fr.sp0 = st.stack
        if fn.params is None:
            p = Parser(lex(fn.header[fn.header.index(name) + len(name):]), self.m)
            p.expect('('); params = []
            if not p.accept(')'):
                while True:
                    p.skip_attrs()
                    if p.peek()[0] == 'dots': p.next(); p.expect(')'); break
                    t = p.type(); p.skip_attrs()
                    nm = p.next()[1] if p.peek()[0] == 'lname' else None
                    params.append((t, nm))
                    if p.accept(')'): break
                    p.expect(',')
            fn.params = params
        for (t, nm), a in zip(fn.params, args):
            if nm: fr.env[nm] = a
        st.frames.append(fr)

    def run(self, entry, args, st=None, on_done=None):
        st = st or State()
        self.call(st, entry, args)
        work = [st]; done = []
        while work:
            st = work.pop()
            try:
                while True:
                    r = self.step(st)
                    if r is not None:
                        # fork list: [(cond, state)]
                        work.extend(r); break
            except ForkOn as f:
                for v in f.vals:
                    s2 = st.clone(); s2.pc.append(f.expr == v); work.append(s2)
            except PathEnd as e:
                st.end = (e.kind, e.info); done.append(st)
                if on_done: on_done(st)
            except Unsupported as e:
                st.end = ('unsupported', str(e)); done.append(st)
                if on_done: on_done(st)
        return done

    PANIC_PAT = re.compile(r'panick|panic_|5panic|begin_panic|handle_alloc_error|capacity_overflow|unwrap_failed|expect_failed|slice_index|slice_start_index|slice_end_index|str_index|handle_error|_Unwind_Resume|abort|option13unwrap|panic_bounds_check|assert_failed')

    def step(self, st):
        fr = st.frames[-1]
        ins = fr.fn.blocks[fr.blk][fr.idx]
        st.steps += 1
        if st.steps > self.max_steps: raise PathEnd('stepbound')
        key = (fr.fn.name, fr.blk, fr.idx)
        parsed = self.pcache.get(key)
        if parsed is None:
            parsed = self.parse_ins(ins); self.pcache[key] = parsed
        try:
            return self.exec_ins(st, fr, parsed)
        except SyntaxError as e:
            raise Unsupported('parse: ' + str(e) + ' :: ' + ins[:200])

    def parse_ins(self, ins):
        toks = lex(ins.split(', !')[0] if ', !' in ins else ins)
        toks = [t for t in toks if t[0] != 'meta']
        p = Parser(toks, self.m)
        dst = None
        if p.peek()[0] == 'lname' and p.peek(1)[1] == '=':
            dst = p.next()[1]; p.next()
        p.skip_attrs()
        op = p.next()[1]
        return (dst, op, p, ins)

    def exec_ins(self, st, fr, parsed):
        dst, op, p0, text = parsed
        p = Parser(p0.t, self.m); p.i = p0.i
        env = fr.env
        C = lambda t, v: self.const(st, fr, t, v)

        def setd(x):
            env[dst] = x; fr.idx += 1

        if op in ('add', 'sub', 'mul', 'and', 'or', 'xor', 'shl', 'lshr', 'ashr', 'udiv', 'urem', 'sdiv', 'srem'):
            p.skip_attrs(); t = p.type(); a = p.value(t); p.expect(','); b = p.value(t)
            tt = self.m.resolve(t)
            if isinstance(tt, VecT):
                va, vb = C(t, a), C(t, b)
                return setd([self.binop(op, tt.el.bits, x, y) for x, y in zip(va, vb)])
            return setd(self.binop(op, tt.bits, C(t, a), C(t, b)))
        if op == 'icmp':
            p.skip_attrs(); cc = p.next()[1]; t = p.type(); a = p.value(t); p.expect(','); b = p.value(t)
            tt = self.m.resolve(t)
            if isinstance(tt, VecT):
                return setd([self.icmp(cc, tt.el.bits, x, y) for x, y in zip(C(t, a), C(t, b))])
            return setd(self.icmp(cc, tt.bits, C(t, a), C(t, b)))
        if op in ('zext', 'sext', 'trunc', 'ptrtoint', 'inttoptr', 'bitcast', 'freeze', 'addrspacecast'):
            p.skip_attrs(); t = p.type(); v = p.value(t); x = C(t, v)
            if op == 'freeze': return setd(x)
            p.expect('to'); dt = self.m.resolve(p.type()); stt = self.m.resolve(t)
            if isinstance(stt, VecT) or isinstance(dt, VecT):
                if op == 'bitcast':
                    return setd(self.vec_bitcast(x, stt, dt))
                f = {'zext': lambda e: e if not is_sym(e) else z3.ZeroExt(dt.el.bits - stt.el.bits, e),
                     'sext': lambda e: (tosigned(e, stt.el.bits) & mask(dt.el.bits)) if not is_sym(e) else z3.SignExt(dt.el.bits - stt.el.bits, e),
                     'trunc': lambda e: (e & mask(dt.el.bits)) if not is_sym(e) else z3.Extract(dt.el.bits - 1, 0, e)}[op]
                return setd([f(e) for e in x])
            sb, db = stt.bits, dt.bits
            if is_sym(x):
                if op == 'zext' or (op in ('ptrtoint', 'inttoptr', 'bitcast') and db > sb): x = z3.ZeroExt(db - sb, x)
                elif op == 'sext': x = z3.SignExt(db - sb, x)
                elif db < sb: x = z3.Extract(db - 1, 0, x)
                x = z3.simplify(x)
            else:
                if op == 'sext': x = tosigned(x, sb) & mask(db)
                else: x &= mask(db)
            return setd(x)
        if op == 'select':
            p.skip_attrs(); ct = p.type(); c = C(ct, p.value(ct)); p.expect(','); t = p.type(); a = C(t, p.value(t)); p.expect(','); t2 = p.type(); b = C(t2, p.value(t2))
            tt = self.m.resolve(t)
            if isinstance(self.m.resolve(ct), VecT):
                return setd([self.sel(ci, ai, bi, tt.el.bits) for ci, ai, bi in zip(c, a, b)])
            if not is_sym(c): return setd(a if c else b)
            if isinstance(tt, (StructT, ArrT, VecT)): return setd(self.sel_agg(c, a, b, tt))
            return setd(self.sel(c, a, b, tt.bits))
        if op == 'getelementptr':
            p.skip_attrs(); bt = p.type(); p.expect(','); pt = p.type(); base = C(pt, p.value(pt)); idx = []
            while p.accept(','):
                p.skip_attrs(); it = p.type(); idx.append((it, C(it, p.value(it))))
            return setd(self.gep(bt, base, idx))
        if op == 'load':
            p.skip_attrs(); t = p.type(); p.expect(','); pt = p.type(); a = C(pt, p.value(pt))
            return setd(self.load(st, a, t))
        if op == 'store':
            p.skip_attrs(); t = p.type(); v = C(t, p.value(t)); p.expect(','); pt = p.type(); a = C(pt, p.value(pt))
            self.store(st, a, t, v); fr.idx += 1; return
        if op == 'alloca':
            t = p.type(); n = 1
            if p.accept(','):
                if p.peek()[1] != 'align':
                    nt = p.type(); n = self.concretize(st, C(nt, p.value(nt)), 'alloca count')
            size = self.m.sizeof(t) * n
            st.stack = (st.stack - size - 16) & ~0xf
            return setd(st.stack)
        if op == 'br':
            if p.peek()[1] == 'label':
                p.next(); return self.goto(fr, p.next()[1])
            t = p.type(); c = C(t, p.value(t)); p.expect(','); p.expect('label'); l1 = p.next()[1]; p.expect(','); p.expect('label'); l2 = p.next()[1]
            if not is_sym(c): return self.goto(fr, l1 if c else l2)
            ct = c == 1
            f1, f2 = self.feasible(st, ct), self.feasible(st, z3.Not(ct))
            if f1 and f2:
                s2 = st.clone(); st.pc.append(ct); s2.pc.append(z3.Not(ct))
                self.goto(st.frames[-1], l1); self.goto(s2.frames[-1], l2)
                return [st, s2]
            if not f1 and not f2: raise PathEnd('infeasible')
            return self.goto(fr, l1 if f1 else l2)
        if op == 'switch':
            t = p.type(); v = C(t, p.value(t)); p.expect(','); p.expect('label'); default = p.next()[1]; p.expect('[')
            cases = []
            while not p.accept(']'):
                ct = p.type(); cv = C(ct, p.value(ct)); p.expect(','); p.expect('label'); cases.append((cv, p.next()[1]))
            if not is_sym(v):
                for cv, l in cases:
                    if cv == v: return self.goto(fr, l)
                return self.goto(fr, default)
            outs = []; negs = []
            for cv, l in cases:
                c = v == cv
                if self.feasible(st, c):
                    s2 = st.clone(); s2.pc.append(c); self.goto(s2.frames[-1], l); outs.append(s2)
                negs.append(v != cv)
            dc = z3.And(*negs) if negs else z3.BoolVal(True)
            if self.feasible(st, dc):
                st.pc.append(dc); self.goto(st.frames[-1], default); outs.append(st)
            return outs
        if op == 'phi':
            t = p.type(); val = None
            while True:
                p.expect('['); v = p.value(t); p.expect(','); l = p.next()[1]; p.expect(']')
                if l == fr.prev or (fr.prev == '%entry0' and l not in fr.fn.blocks): val = ('ok', v)
                if not p.accept(','): break
            if val is None: raise Unsupported('phi no pred ' + str(fr.prev))
            # phis must read old values simultaneously: collect in pending
            fr.env.setdefault('__phi', []).append((dst, C(t, val[1])))
            fr.idx += 1
            nxt = fr.fn.blocks[fr.blk][fr.idx]
            if not re.match(r'^\S+ = phi ', nxt):
                for d, x in fr.env.pop('__phi'): fr.env[d] = x
            return
        if op == 'ret':
            if p.peek()[1] == 'void' or p.peek()[0] is None: val = None
            else:
                t = p.type(); val = C(t, p.value(t))
            done = st.frames.pop(); st.stack = done.sp0
            if not st.frames:
                st.ret = val; raise PathEnd('ret', val)
            caller = st.frames[-1]
            if done.dst: caller.env[done.dst] = val
            if done.cont: self.goto(caller, done.cont)
            return
        if op == 'unreachable':
            raise PathEnd('unreachable')
        if op == 'extractvalue':
            t = p.type(); v = C(t, p.value(t));
            while p.accept(','): v = v[int(p.next()[1])]
            return setd(v)
        if op == 'insertvalue':
            t = p.type(); agg = C(t, p.value(t)); p.expect(','); et = p.type(); ev = C(et, p.value(et)); path = []
            while p.accept(','): path.append(int(p.next()[1]))
            def ins_(a, path):
                a = list(a)
                if len(path) == 1: a[path[0]] = ev
                else: a[path[0]] = ins_(a[path[0]], path[1:])
                return a
            return setd(ins_(agg, path))
        if op == 'extractelement':
            t = p.type(); v = C(t, p.value(t)); p.expect(','); it = p.type(); i = self.concretize(st, C(it, p.value(it)), 'lane')
            return setd(v[i])
        if op == 'insertelement':
            t = p.type(); v = list(C(t, p.value(t))); p.expect(','); et = p.type(); e = C(et, p.value(et)); p.expect(','); it = p.type(); i = self.concretize(st, C(it, p.value(it)), 'lane')
            v[i] = e; return setd(v)
        if op == 'shufflevector':
            t = p.type(); a = C(t, p.value(t)); p.expect(','); t2 = p.type(); b = C(t2, p.value(t2)); p.expect(','); mt = p.type(); mv = p.value(mt)
            both = list(a) + list(b)
            if mv[0] in ('zero',): idxs = [0] * self.m.resolve(mt).n
            else: idxs = [x[1][1] if x[1][0] == 'c' else 0 for x in mv[1]]
            return setd([both[i] for i in idxs])
        if op in ('call', 'invoke'):
            return self.do_call(st, fr, dst, op, p, text)
        if op == 'fence':
            fr.idx += 1; return
        if op == 'atomicrmw':
            p.skip_attrs(); rop = p.next()[1]; pt = p.type(); a = C(pt, p.value(pt)); p.expect(','); t = p.type(); v = C(t, p.value(t))
            old = self.load(st, a, t); bits = self.m.resolve(t).bits
            new = {'add': lambda: self.binop('add', bits, old, v), 'sub': lambda: self.binop('sub', bits, old, v), 'xchg': lambda: v,
                   'and': lambda: self.binop('and', bits, old, v), 'or': lambda: self.binop('or', bits, old, v)}[rop]()
            self.store(st, a, t, new); return setd(old)
        if op == 'cmpxchg':
            p.skip_attrs(); pt = p.type(); a = C(pt, p.value(pt)); p.expect(','); t = p.type(); cmp_ = C(t, p.value(t)); p.expect(','); t2 = p.type(); new = C(t2, p.value(t2))
            old = self.load(st, a, t)
            if is_sym(old) or is_sym(cmp_): raise Unsupported('sym cmpxchg')
            ok = int(old == cmp_)
            if ok: self.store(st, a, t, new)
            return setd([old, ok])
        if op == 'landingpad' or op == 'resume':
            raise PathEnd('unwind')
        raise Unsupported('instruction ' + op + ' :: ' + text[:80])

    def sel_agg(self, c, a, b, t):
        """select between two aggregate values on a symbolic condition: member by member"""
        t = self.m.resolve(t)
        if isinstance(t, StructT):
            if not isinstance(a, (list, tuple)) or not isinstance(b, (list, tuple)) or len(a) != len(t.els) or len(b) != len(t.els):
                raise Unsupported('select aggregate sym (operand shape)')
            return [self.sel_agg(c, x, y, et) for x, y, et in zip(a, b, t.els)]
        if isinstance(t, (ArrT, VecT)):
            if not isinstance(a, (list, tuple)) or not isinstance(b, (list, tuple)) or len(a) != len(b):
                raise Unsupported('select aggregate sym (operand shape)')
            return [self.sel_agg(c, x, y, t.el) for x, y in zip(a, b)]
        if a is None or b is None:          # undef / poison member: the other side's value is as good as any
            return a if b is None else b
        return self.sel(c, a, b, t.bits)

    def sel(self, c, a, b, bits):
        if not is_sym(c): return a if c else b
        a = a if is_sym(a) else z3.BitVecVal(a, bits); b = b if is_sym(b) else z3.BitVecVal(b, bits)
        r = z3.simplify(z3.If(c == 1, a, b))
        return r.as_long() if z3.is_bv_value(r) else r

    def vec_bitcast(self, x, stt, dt):
        # lanes -> int -> lanes
        def to_int(v, t):
            if isinstance(t, VecT):
                lb = t.el.bits
                if any(is_sym(e) for e in v):
                    zs = [e if is_sym(e) else z3.BitVecVal(e, lb) for e in v]
                    return z3.simplify(z3.Concat(*reversed(zs)))
                r = 0
                for i, e in enumerate(v): r |= e << (lb * i)
                return r
            return v
        def from_int(v, t):
            if isinstance(t, VecT):
                lb = t.el.bits
                if is_sym(v):
                    out = []
                    for i in range(t.n):
                        e = z3.simplify(z3.Extract(lb * i + lb - 1, lb * i, v)); out.append(e.as_long() if z3.is_bv_value(e) else e)
                    return out
                return [(v >> (lb * i)) & mask(lb) for i in range(t.n)]
            return v
        return from_int(to_int(x, stt), dt)

    def goto(self, fr, label):
        fr.prev = fr.blk; fr.blk = label; fr.idx = 0

    def do_call(self, st, fr, dst, op, p, text):
        if '@llvm.experimental.noalias.scope.decl' in text or '@llvm.dbg.' in text:
            fr.idx += 1; return
        p.skip_attrs()
        rt = p.type()
        p.skip_attrs()
        k, callee = p.next()
        p.expect('(')
        args = []
        if not p.accept(')'):
            while True:
                t, v = p.tvalue()
                args.append((t, self.const(st, fr, t, v)))
                if p.accept(')'): break
                p.expect(',')
        cont = None
        if op == 'invoke':
            p.skip_attrs(); p.expect('to'); p.expect('label'); cont = p.next()[1]
        if k == 'lname':
            a = self.concretize(st, fr.env[callee], 'callee')
            callee = self.addrf.get(a)
            if callee is None: raise Unsupported('indirect call to unknown address')
        vals = [a for _, a in args]

        def ret(x=None):
            if dst: fr.env[dst] = x
            if cont: self.goto(fr, cont)
            else: fr.idx += 1

        name = callee
        if name.startswith('@llvm.'):
            return self.intrinsic(st, fr, name, args, ret, rt)
        if name in self.m.funcs:
            if self.PANIC_PAT.search(name) and 'catch_unwind' not in name:
                raise PathEnd('panic', name)
            fr.idx += 1
            self.call(st, name, vals, dst)
            st.frames[-1].cont = cont
            return
        # externals
        if name in ('@malloc', '@__rust_alloc', '@__rdl_alloc', '@__rustc::__rust_alloc'):
            return ret(self.malloc(st, self.concretize(st, vals[0], 'malloc size')))
        if name == '@calloc':
            n = self.concretize(st, vals[0]) * self.concretize(st, vals[1]); a = self.malloc(st, n)
            for i in range(n): st.mem[a + i] = 0
            return ret(a)
        if name == '@posix_memalign':
            a = self.malloc(st, self.concretize(st, vals[2], 'size'), self.concretize(st, vals[1]))
            self.store(st, vals[0], PTR, a); return ret(0)
        if name == '@realloc':
            old = vals[0]; n = self.concretize(st, vals[1], 'realloc size'); a = self.malloc(st, n)
            osz = st.mem.get(('size', old), 0) if not is_sym(old) else 0
            for i in range(min(n, osz)): st.mem[a + i] = self.rd(st, old + i)
            return ret(a)
        if name == '@free':
            return ret()
        if name in ('@bcmp', '@memcmp'):
            n = self.concretize(st, vals[2], 'memcmp len'); a = self.concretize(st, vals[0]); b = self.concretize(st, vals[1])
            diffs = []
            for i in range(n):
                x, y = self.rd(st, a + i), self.rd(st, b + i)
                if is_sym(x) or is_sym(y):
                    x = x if is_sym(x) else z3.BitVecVal(x, 8); y = y if is_sym(y) else z3.BitVecVal(y, 8)
                    diffs.append(x != y)
                elif x != y:
                    if name == '@bcmp' or not diffs:
                        if not diffs: return ret(1 if name == '@bcmp' else ((x - y) & mask(32)))
                    diffs.append(z3.BoolVal(True)); break
            if not diffs: return ret(0)
            if name == '@memcmp': raise Unsupported('symbolic memcmp')
            r = z3.simplify(z3.If(z3.Or(*diffs), z3.BitVecVal(1, 32), z3.BitVecVal(0, 32)))
            return ret(r.as_long() if z3.is_bv_value(r) else r)
        if name in ('@__cxa_thread_atexit_impl', '@__cxa_atexit', '@atexit'):
            return ret(0)
        if name == '@getrandom':
            a = self.concretize(st, vals[0]); n = self.concretize(st, vals[1])
            for i in range(n): st.mem[a + i] = (i * 37 + 11) & 0xff
            return ret(n)
        if name == '@getcwd':
            # environment stub: the working directory is "/" (the native runs of the harness library use the real one)
            a = self.concretize(st, vals[0]); n = self.concretize(st, vals[1])
            if n < 2: return ret(0)
            st.mem[a] = ord('/'); st.mem[a + 1] = 0
            return ret(a)
        if name == '@strlen':
            a = self.concretize(st, vals[0]); n = 0
            while self.rd(st, a + n) != 0: n += 1
            return ret(n)
        if name in ('@abort', '@exit', '@_exit'):
            raise PathEnd('abort')
        if self.PANIC_PAT.search(name):
            raise PathEnd('panic', name)
        raise Unsupported('external call ' + name)

    def malloc(self, st, n, align=16):
        align = max(align, 16)
        st.heap = (st.heap + align - 1) // align * align
        a = st.heap; st.heap += max(n, 1) + 16
        st.mem[('size', a)] = n
        return a

    def intrinsic(self, st, fr, name, args, ret, rt):
        vals = [a for _, a in args]
        base = name[len('@llvm.'):]
        if base.startswith(('lifetime.', 'dbg.', 'experimental.noalias', 'assume', 'prefetch', 'invariant.')):
            return ret()
        if base.startswith('expect.'): return ret(vals[0])
        if base.startswith('threadlocal.address'): return ret(vals[0])
        if base.startswith(('memcpy.', 'memmove.')):
            d = self.concretize(st, vals[0]); s = self.concretize(st, vals[1]); n = self.concretize(st, vals[2], 'memcpy len')
            bs = [self.rd(st, s + i) for i in range(n)]
            for i, b in enumerate(bs): st.mem[d + i] = b
            return ret()
        if base.startswith('memset.'):
            d = self.concretize(st, vals[0]); n = self.concretize(st, vals[2], 'memset len')
            for i in range(n): st.mem[d + i] = vals[1]
            return ret()
        if base.startswith('is.constant'): return ret(0)
        if base == 'trap' or base == 'debugtrap': raise PathEnd('trap')
        t = self.m.resolve(args[0][0]) if args else None
        bits = t.bits if t is not None and hasattr(t, 'bits') else None
        m2 = re.match(r'^(u|s)(add|sub|mul)\.with\.overflow', base)
        if m2:
            a, b = vals; sg, o = m2.group(1), m2.group(2)
            if not is_sym(a) and not is_sym(b):
                if sg == 'u':
                    full = {'add': a + b, 'sub': a - b, 'mul': a * b}[o]; return ret([full & mask(bits), int(full < 0 or full > mask(bits))])
                x, y = tosigned(a, bits), tosigned(b, bits); full = {'add': x + y, 'sub': x - y, 'mul': x * y}[o]
                return ret([full & mask(bits), int(not (-(1 << (bits - 1)) <= full < (1 << (bits - 1))))])
            za = a if is_sym(a) else z3.BitVecVal(a, bits); zb = b if is_sym(b) else z3.BitVecVal(b, bits)
            ext = z3.ZeroExt if sg == 'u' else z3.SignExt
            wa, wb = ext(bits, za), ext(bits, zb)
            full = {'add': wa + wb, 'sub': wa - wb, 'mul': wa * wb}[o]
            res = z3.Extract(bits - 1, 0, full)
            ov = full != ext(bits, res)
            return ret([z3.simplify(res), z3.simplify(z3.If(ov, z3.BitVecVal(1, 1), z3.BitVecVal(0, 1)))])
        m2 = re.match(r'^(u|s)(min|max)\.', base)
        if m2:
            a, b = vals; sg, o = m2.groups()
            cc = {('u', 'min'): 'ult', ('u', 'max'): 'ugt', ('s', 'min'): 'slt', ('s', 'max'): 'sgt'}[(sg, o)]
            c = self.icmp(cc, bits, a, b)
            return ret(self.sel(c, a, b, bits) if is_sym(c) else (a if c else b))
        m2 = re.match(r'^(u|s)(add|sub)\.sat\.', base)
        if m2:
            a, b = vals; sg, o = m2.groups()
            if is_sym(a) or is_sym(b):
                za = a if is_sym(a) else z3.BitVecVal(a, bits); zb = b if is_sym(b) else z3.BitVecVal(b, bits)
                if sg == 'u':
                    if o == 'add':
                        r = z3.If(z3.ULT(za + zb, za), z3.BitVecVal(mask(bits), bits), za + zb)
                    else:
                        r = z3.If(z3.ULT(za, zb), z3.BitVecVal(0, bits), za - zb)
                else:
                    wa, wb = z3.SignExt(1, za), z3.SignExt(1, zb)
                    full = wa + wb if o == 'add' else wa - wb
                    hi = z3.BitVecVal((1 << (bits - 1)) - 1, bits + 1); lo = z3.BitVecVal(-(1 << (bits - 1)), bits + 1)
                    r = z3.Extract(bits - 1, 0, z3.If(full > hi, hi, z3.If(full < lo, lo, full)))
                r = z3.simplify(r)
                return ret(r.as_long() if z3.is_bv_value(r) else r)
            if sg == 'u':
                r = a + b if o == 'add' else a - b; r = max(0, min(mask(bits), r)); return ret(r)
            r = tosigned(a, bits) + tosigned(b, bits) if o == 'add' else tosigned(a, bits) - tosigned(b, bits)
            r = max(-(1 << (bits - 1)), min((1 << (bits - 1)) - 1, r)); return ret(r & mask(bits))
        if base.startswith(('ctlz.', 'cttz.', 'ctpop.', 'bswap.', 'bitreverse.', 'abs.')):
            a = vals[0]
            if is_sym(a):
                if base.startswith('ctpop.'):
                    r = sum([z3.ZeroExt(bits - 1, z3.Extract(i, i, a)) for i in range(bits)]); return ret(z3.simplify(r))
                if base.startswith('cttz.'):
                    r = z3.BitVecVal(bits, bits)
                    for i in reversed(range(bits)): r = z3.If(z3.Extract(i, i, a) == 1, z3.BitVecVal(i, bits), r)
                    return ret(z3.simplify(r))
                if base.startswith('ctlz.'):
                    r = z3.BitVecVal(bits, bits)
                    for i in range(bits): r = z3.If(z3.Extract(i, i, a) == 1, z3.BitVecVal(bits - 1 - i, bits), r)
                    return ret(z3.simplify(r))
                if base.startswith('bswap.'):
                    n = bits // 8; return ret(z3.simplify(z3.Concat(*[z3.Extract(8 * i + 7, 8 * i, a) for i in range(n)])))
                raise Unsupported('sym ' + base)
            if base.startswith('ctpop.'): return ret(bin(a).count('1'))
            if base.startswith('cttz.'): return ret(bits if a == 0 else (a & -a).bit_length() - 1)
            if base.startswith('ctlz.'): return ret(bits - a.bit_length())
            if base.startswith('bswap.'): return ret(int.from_bytes(a.to_bytes(bits // 8, 'little'), 'big'))
            if base.startswith('bitreverse.'): return ret(int(format(a, f'0{bits}b')[::-1], 2))
            if base.startswith('abs.'): return ret(abs(tosigned(a, bits)) & mask(bits))
        if base.startswith(('fshl.', 'fshr.')):
            a, b, c = vals
            if any(is_sym(x) for x in vals):
                za, zb, zc = [x if is_sym(x) else z3.BitVecVal(x, bits) for x in vals]
                zc = z3.URem(zc, z3.BitVecVal(bits, bits))
                full = z3.Concat(za, zb); sh = z3.ZeroExt(bits, zc)
                r = z3.Extract(2 * bits - 1, bits, full << sh) if base.startswith('fshl') else z3.Extract(bits - 1, 0, z3.LShR(full, sh))
                r = z3.simplify(r)
                return ret(r.as_long() if z3.is_bv_value(r) else r)
            c %= bits; full = (a << bits) | b
            r = (full << c) >> bits if base.startswith('fshl') else (full >> c)
            return ret(r & mask(bits))
        if base.startswith(('ucmp.', 'scmp.')):
            a, b = vals; rb = self.m.resolve(rt).bits
            lt = self.icmp('ult' if base[0] == 'u' else 'slt', bits, a, b); gt = self.icmp('ugt' if base[0] == 'u' else 'sgt', bits, a, b)
            if not is_sym(lt) and not is_sym(gt): return ret(mask(rb) if lt else (1 if gt else 0))
            lt = lt if is_sym(lt) else z3.BitVecVal(lt, 1); gt = gt if is_sym(gt) else z3.BitVecVal(gt, 1)
            return ret(z3.simplify(z3.If(lt == 1, z3.BitVecVal(mask(rb), rb), z3.If(gt == 1, z3.BitVecVal(1, rb), z3.BitVecVal(0, rb)))))
        if base.startswith('x86.sse2.pmovmskb'):
            v = vals[0]
            if any(is_sym(e) for e in v):
                zs = [z3.Extract(7, 7, e if is_sym(e) else z3.BitVecVal(e, 8)) for e in v]
                return ret(z3.simplify(z3.ZeroExt(16, z3.Concat(*reversed(zs)))))
            r = 0
            for i, e in enumerate(v): r |= (e >> 7) << i
            return ret(r)
        if base.startswith('x86.sse2.pause'): return ret()
        if base.startswith('vector.reduce.or'):
            v = vals[0]; r = 0
            for e in v: r = self.binop('or', self.m.resolve(args[0][0]).el.bits, r, e)
            return ret(r)
        raise Unsupported('intrinsic ' + name)
