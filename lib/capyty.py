"""A small model of Capy types used by the template generators: source rendering and the DOCUMENTED layout
rules (README 'Extra information' boxes and property C17): fields in declaration order at aligned offsets,
tag byte after the largest payload, arrays of strides.  This is an oracle written from the documentation;
it never reads crates/codegen/src/layout.rs."""

SCALARS = {
    'i8': (1, True), 'i16': (2, True), 'i32': (4, True), 'i64': (8, True), 'i128': (16, True), 'isize': (8, True),
    'u8': (1, False), 'u16': (2, False), 'u32': (4, False), 'u64': (8, False), 'u128': (16, False), 'usize': (8, False),
    'bool': (1, False), 'char': (1, False), 'f32': (4, False), 'f64': (8, False),
}


class Ty:
    kind = None

    def size(self): raise NotImplementedError
    def align(self): raise NotImplementedError
    def src(self): raise NotImplementedError

    def stride(self):
        s, a = self.size(), self.align()
        return (s + a - 1) // a * a

    def is_aggregate(self):
        return self.kind in ('struct', 'array', 'enum', 'opt', 'err') and not (self.kind == 'opt' and self.sub.kind == 'ptr')


class Scalar(Ty):
    kind = 'scalar'

    def __init__(self, name):
        self.name = name

    def size(self): return SCALARS[self.name][0]
    def align(self): return min(self.size(), 8)
    def src(self): return self.name
    def signed(self): return SCALARS[self.name][1]
    def bits(self): return 8 * self.size()
    def is_float(self): return self.name in ('f32', 'f64')


class Ptr(Ty):
    kind = 'ptr'

    def __init__(self, sub, mutable=False):
        self.sub = sub; self.mutable = mutable

    def size(self): return 8
    def align(self): return 8
    def src(self): return ('^mut ' if self.mutable else '^') + self.sub.src()


class Named(Ty):
    """a type bound to a global name (structs, enums, distincts are declared once and referred to by name)"""

    def __init__(self, name):
        self.name = name

    def src(self): return self.name


class Struct(Named):
    kind = 'struct'

    def __init__(self, name, fields):
        super().__init__(name); self.fields = fields      # [(fname, Ty)]

    def offsets(self):
        off = 0; res = []
        for _, t in self.fields:
            a = t.align()
            off = (off + a - 1) // a * a
            res.append(off)
            off += t.size()
        return res, off

    def size(self): return self.offsets()[1]
    def align(self): return max([t.align() for _, t in self.fields] + [1])
    def decl(self): return '%s :: struct { %s };' % (self.name, ', '.join('%s: %s' % (n, t.src()) for n, t in self.fields))

    def field(self, name):
        offs, _ = self.offsets()
        for (n, t), o in zip(self.fields, offs):
            if n == name:
                return t, o
        raise KeyError(name)


class Array(Ty):
    kind = 'array'

    def __init__(self, n, sub):
        self.n = n; self.sub = sub

    def size(self): return self.n * self.sub.stride()
    def align(self): return self.sub.align()
    def src(self): return '[%d]%s' % (self.n, self.sub.src())


class Enum(Named):
    kind = 'enum'

    def __init__(self, name, variants):
        """variants: [(vname, payload Ty or None, discriminant or None)]; discriminants default to the previous + 1"""
        super().__init__(name); self.variants = variants

    def discriminants(self):
        res = []; nxt = 0
        for _, _, d in self.variants:
            if d is not None:
                nxt = d
            res.append(nxt); nxt += 1
        return res

    def payload_size(self): return max([p.size() for _, p, _ in self.variants if p is not None] + [0])
    def size(self): return self.payload_size() + 1
    def align(self): return max([p.align() for _, p, _ in self.variants if p is not None] + [1])
    def tag_offset(self): return self.payload_size()

    def decl(self):
        parts = []
        for n, p, d in self.variants:
            s = n
            if p is not None:
                s += ': ' + p.src()
            if d is not None:
                s += ' | %d' % d
            parts.append(s)
        return '%s :: enum { %s };' % (self.name, ', '.join(parts))


class Opt(Ty):
    kind = 'opt'

    def __init__(self, sub):
        self.sub = sub

    def size(self): return self.sub.size() if self.sub.kind == 'ptr' else self.sub.size() + 1
    def align(self): return self.sub.align()
    def tag_offset(self): return self.sub.size()
    def src(self): return '?' + self.sub.src()


class Err(Ty):
    kind = 'err'

    def __init__(self, err, ok):
        self.err = err; self.ok = ok

    def payload_size(self): return max(self.err.size(), self.ok.size())
    def size(self): return self.payload_size() + 1
    def align(self): return max(self.err.align(), self.ok.align())
    def tag_offset(self): return self.payload_size()
    def src(self): return '%s!%s' % (self.err.src(), self.ok.src())


class Distinct(Named):
    kind = 'distinct'

    def __init__(self, name, sub):
        super().__init__(name); self.sub = sub

    def size(self): return self.sub.size()
    def align(self): return self.sub.align()
    def decl(self): return '%s :: distinct %s;' % (self.name, self.sub.src())


def S(name):
    return Scalar(name)
