"""Engine-B glue: Capy templates -> CLIF -> symbolic paths; native calls for replay and validation."""
import os
import random
import re
import time
import z3

from . import common
from .common import Inconclusive
from engine.clifsym import parse_dump, Engine, State, Unsupported
from engine.clifsym.parser import ParseError

INT_TYPES = {
    'i8': (8, True), 'i16': (16, True), 'i32': (32, True), 'i64': (64, True), 'i128': (128, True), 'isize': (64, True),
    'u8': (8, False), 'u16': (16, False), 'u32': (32, False), 'u64': (64, False), 'u128': (128, False), 'usize': (64, False),
}
OTHER = {'bool': 8, 'char': 8, 'f32': 32, 'f64': 64}


def bits_of(t):
    if t in INT_TYPES:
        return INT_TYPES[t][0]
    return OTHER[t]


def signed_of(t):
    return t in INT_TYPES and INT_TYPES[t][1]


def unsigned_twin(t):
    return {'i8': 'u8', 'i16': 'u16', 'i32': 'u32', 'i64': 'u64', 'i128': 'u128', 'isize': 'usize'}.get(t, t)


PRELUDE = '''putchar :: (c: i32) -> i32 extern;
out_hex :: (v: u64) {
    i := 0;
    while i < 16 {
        d := (v >> u64.(60 - i * 4)) & 15;
        if d < 10 { putchar(i32.(48 + d)); } else { putchar(i32.(87 + d)); }
        i = i + 1;
    }
    putchar(10);
}
mark :: (k: u64) {
    putchar(109);
    out_hex(k);
}
'''


def compile_module(prop, name, src, keep=True):
    """writes <name>.capy into the property's work dir, runs the real compiler, parses the dump.
    returns (module or None, compiler output)"""
    wd = common.workdir(prop)
    path = os.path.join(wd, name + '.capy')
    with open(path, 'w') as fh:
        fh.write(src)
    rc, out = common.capy_dump(name + '.capy', wd)
    if rc != 0 or common.compiler_rejected(out) or 'panicked at' in out:
        return None, out
    try:
        mod = parse_dump(out)
    except ParseError as e:
        raise Inconclusive('CLIF dump of %s not parsable: %s' % (name, e))
    if not mod.funcs:
        return None, out
    return mod, out


def lit(t, v):
    """Capy expression of type t whose bit pattern is v (an int in [0, 2^bits))"""
    if t == 'bool':
        return 'true' if v & 1 else 'false'
    if t == 'char':
        return 'char.(u8.(%d))' % (v & 0xff)
    if t in INT_TYPES:
        b, s = INT_TYPES[t]
        if b > 64:
            raise ValueError('128-bit literals go through memory')
        if s:
            return '%s.(%s.(%d))' % (t, unsigned_twin(t), v)
        return '%s.(%d)' % (t, v)
    raise ValueError(t)


class NativeBatch:
    """collects calls `f(args)` on concrete bit patterns; one build+run prints every result as hex lines.

    A call = (fn name, [(capy type, bit pattern)], ret capy type or None, [out-pointer capy types]).
    Arguments of type f32/f64/i128/u128 and pointer arguments travel through memory (no casts involved)."""

    def __init__(self, prop, name, template_src):
        self.prop = prop; self.name = name; self.src = template_src
        self.calls = []

    def add(self, fn, args, ret, ptr_args=()):
        self.calls.append((fn, list(args), ret, list(ptr_args)))
        return len(self.calls) - 1

    def source(self):
        body = []
        n = 0
        for ci, (fn, args, ret, ptr_args) in enumerate(self.calls):
            names = []
            body.append('    // call %d' % ci)
            for (t, v) in args:
                n += 1
                nm = 'a%d' % n
                if isinstance(t, tuple) and t[0] == 'alias':
                    # ('alias', index of an earlier ptr argument of this call, pointee type, mutable, guard words)
                    tgt = names[t[1]]
                    if t[3]:
                        body.append('    %s := (^mut %s).(mut rawptr.(^mut %s_w[%d]));' % (nm, t[2], tgt, t[4]))
                    else:
                        body.append('    %s := (^%s).(rawptr.(^%s_w[%d]));' % (nm, t[2], tgt, t[4]))
                elif isinstance(t, tuple) and t[0] == 'ptr':
                    # ('ptr', pointee type, nbytes, mutable): v = bit pattern of the pointee (little endian int)
                    # optional 5th element: number of guard words on each side of the object (v covers them too)
                    pt, nbytes, mutable = t[1], t[2], t[3]
                    guard = t[4] if len(t) > 4 else 0
                    words = (nbytes + 7) // 8 + 2 * guard
                    vals = ', '.join(str((v >> (64 * i)) & (2**64 - 1)) for i in range(words))
                    body.append('    %s_w : [%d]u64 = u64.[%s];' % (nm, words, vals))
                    if mutable:
                        body.append('    %s := (^mut %s).(mut rawptr.(^mut %s_w[%d]));' % (nm, pt, nm, guard))
                    else:
                        body.append('    %s := (^%s).(rawptr.(^%s_w[%d]));' % (nm, pt, nm, guard))
                elif t in ('f32', 'f64'):
                    ut = 'u32' if t == 'f32' else 'u64'
                    body.append('    %s_b : %s = %d;' % (nm, ut, v))
                    body.append('    %s := (^%s).(rawptr.(^%s_b))^;' % (nm, t, nm))
                elif t in ('i128', 'u128'):
                    body.append('    %s_w : [2]u64 = u64.[%d, %d];' % (nm, v & (2**64 - 1), v >> 64))
                    body.append('    %s := (^%s).(rawptr.(^%s_w))^;' % (nm, t, nm))
                else:
                    body.append('    %s : %s = %s;' % (nm, t, lit(t, v)))
                names.append(nm)
            call = '%s(%s)' % (fn, ', '.join(names))
            if ret is None:
                body.append('    %s;' % call)
            else:
                n += 1
                r = 'r%d' % n
                body.append('    %s : %s = %s;' % (r, ret, call))
                b = bits_of(ret)
                if b <= 64 and ret not in ('f32', 'f64'):
                    ut = {8: 'u8', 16: 'u16', 32: 'u32', 64: 'u64'}[b]
                    body.append('    out_hex(u64.((^%s).(rawptr.(^%s))^));' % (ut, r))
                elif ret == 'f32':
                    body.append('    out_hex(u64.((^u32).(rawptr.(^%s))^));' % r)
                elif ret == 'f64':
                    body.append('    out_hex((^u64).(rawptr.(^%s))^);' % r)
                else:
                    body.append('    %s_p := (^[2]u64).(rawptr.(^%s));' % (r, r))
                    body.append('    out_hex(%s_p[0]); out_hex(%s_p[1]);' % (r, r))
            for (idx, nbytes) in ptr_args:
                nm = names[idx]
                words = (nbytes + 7) // 8
                for w in range(words):
                    body.append('    out_hex(%s_w[%d]);' % (nm, w))
            body.append('    putchar(59); putchar(10);')
        return self.src + '\nmain :: () -> i32 {\n' + '\n'.join(body) + '\n    0\n}\n'

    def run(self):
        """returns list (per call) of lists of ints, or raises Inconclusive; a call the program died in gets None"""
        wd = common.workdir(self.prop)
        fname = self.name + '_native.capy'
        with open(os.path.join(wd, fname), 'w') as fh:
            fh.write(self.source())
        res = common.capy_native(fname, wd)
        self.last = res
        if res['rc'] is None:
            return None
        chunks = res['stdout'].split(';\n')
        out = []
        self.partial = chunks[-1]
        for i in range(len(self.calls)):
            if i >= len(chunks) - 1:
                out.append(None)       # the program ended inside (or before) this call
                continue
            vals = []
            for l in chunks[i].split('\n'):
                if not l.strip():
                    continue
                if re.match(r'^m[0-9a-f]{16}$', l):
                    vals.append(('mark', int(l[1:], 16)))
                elif re.match(r'^[0-9a-f]{16}$', l):
                    vals.append(int(l, 16))
                else:
                    vals.append(('text', l))
            out.append(vals)
        return out


def sym_args(specs, prefix='a'):
    """specs: list of capy scalar types -> (z3 vars, precondition list)"""
    vs = []; pre = []
    for i, t in enumerate(specs):
        v = z3.BitVec('%s%d' % (prefix, i), bits_of(t))
        vs.append(v)
        if t == 'bool':
            pre.append(z3.ULE(v, 1))
    return vs, pre


class Prover:
    """negated-goal queries with bookkeeping on a Check object. In the thorough tier every CROSS_EVERY-th query is
    also exported as SMT-LIB2 and decided by cvc5; a disagreement between the two solvers makes the check inconclusive."""
    CROSS_EVERY = 25

    def __init__(self, chk, timeout_ms=60000):
        self.chk = chk; self.timeout_ms = timeout_ms
        self.n = 0
        self.cross = chk.tier == 'thorough' or os.environ.get('VERIF_CROSSCHECK') == '1'

    def crosscheck(self, s, verdict):
        import subprocess, tempfile
        text = '(set-logic ALL)\n' + s.to_smt2()
        with tempfile.NamedTemporaryFile('w', suffix='.smt2', delete=False, dir=common.workdir(self.chk.prop)) as fh:
            fh.write(text); path = fh.name
        try:
            p = subprocess.run(['cvc5', '--lang', 'smt2', '--tlimit', '60000', path], capture_output=True, text=True, timeout=90)
            out = p.stdout.strip().splitlines()
        except Exception as e:      # noqa
            out = ['error ' + str(e)]
        finally:
            os.unlink(path)
        cc = self.chk.cov.setdefault('cvc5_crosscheck', {'agree': 0, 'no_answer': 0, 'disagree': 0})
        if any(l.startswith('(error') or l.startswith('error') for l in out) or not out or out[0] not in ('sat', 'unsat'):
            cc['no_answer'] += 1
        elif out[0] == verdict:
            cc['agree'] += 1
        else:
            cc['disagree'] += 1
            self.chk.inconclusive_note('z3 says %s but cvc5 says %s on the same query' % (verdict, out[0]))

    def prove(self, hyps, goal):
        """returns ('unsat', None) when hyps => goal is valid, ('sat', model) with a counterexample, or ('unknown', None)"""
        s = z3.Solver(); s.set('timeout', self.timeout_ms)
        for h in hyps:
            s.add(h)
        s.add(z3.Not(goal))
        t0 = time.time()
        r = s.check()
        self.chk.solver_s += time.time() - t0
        self.n += 1
        if self.cross and self.n % self.CROSS_EVERY == 0 and r in (z3.sat, z3.unsat):
            self.crosscheck(s, 'sat' if r == z3.sat else 'unsat')
        if r == z3.unsat:
            self.chk.queries['unsat'] += 1
            return 'unsat', None
        if r == z3.sat:
            self.chk.queries['sat'] += 1
            return 'sat', s.model()
        self.chk.queries['unknown'] += 1
        return 'unknown', None


def model_val(model, v):
    x = model.eval(v, model_completion=True)
    return x.as_long()


def run_paths(chk, mod, fn_pretty, args, pre=(), st=None, **kw):
    """symbolically executes one entry function; returns (engine, paths). Bound/unsupported => Inconclusive."""
    eng = Engine(mod, **kw)
    st = st or State()
    st.pc.extend(pre)
    try:
        paths = eng.run(mod.by_pretty(fn_pretty), args, st)
    except Unsupported as e:
        raise Inconclusive('%s: unsupported: %s' % (fn_pretty, e))
    chk.funcs_encoded.update(eng.funcs_run)
    chk.solver_s += eng.solver_s
    chk.cov['feasibility_queries'] = chk.cov.get('feasibility_queries', 0) + eng.nqueries
    chk.cov['ir_instructions_executed'] = chk.cov.get('ir_instructions_executed', 0) + eng.steps_total
    cut = [p for p in paths if p.status == 'bound']
    if cut:
        raise Inconclusive('%s: %d path(s) cut at the unwinding/step bound' % (fn_pretty, len(cut)))
    return eng, paths


def compile_obligations(chk, name, head_src, obs, key_extra=None):
    """compiles head_src + every obligation's function; when the compiler rejects or crashes, bisects to the offending
    functions, reports each as a violation (a well-typed-by-construction function that is not compiled) and continues
    with the rest. returns (module, accepted obligations, source without main, refs source)"""
    from . import replay as replaylib
    prop = chk.prop

    def attempt(os_, nm):
        src = head_src + '\n'.join(o.src for o in os_) + '\n'
        refs = 'refs :: () {\n' + '\n'.join('    r%d := %s;' % (i, o.name) for i, o in enumerate(os_)) + '\n}\n'
        mod, out = compile_module(prop, nm, src + refs + 'main :: () { refs(); }\n')
        return mod, out, src, refs
    mod, out, src, refs = attempt(obs, name)
    if mod is not None:
        return mod, obs, src, refs
    bad = []

    def bisect(os_):
        m, o, _, _ = attempt(os_, name + '_bisect')
        if m is not None:
            return
        if len(os_) == 1:
            bad.append((os_[0], o)); return
        h = len(os_) // 2
        bisect(os_[:h]); bisect(os_[h:])
    bisect(obs)
    if not bad:
        raise Inconclusive('the %s template is rejected as a whole but every function compiles alone:\n%s' % (prop, out[-1200:]))
    badset = {id(b) for b, _ in bad}
    good = [o for o in obs if id(o) not in badset]
    for o, oo in bad:
        first = [l for l in oo.splitlines() if 'panicked' in l or l.startswith('error') or 'Error defining' in l or 'Compilation(' in l][:1]
        key = dict(o.key, failure='compile')
        if key_extra:
            key.update(key_extra)
        what = 'the well-typed function `%s` is not compiled: %s' % (o.src.split('\n')[-1][:200], first[0][:200] if first else 'compiler failed')
        full = head_src + o.src + '\nmain :: () { p := %s; }\n' % o.name
        path = replaylib.make_compile_replay(prop, 'compile_' + o.name, full, oo, what, key)
        chk.report(key, what, path)
    mod, out, src, refs = attempt(good, name)
    if mod is None:
        raise Inconclusive('the %s template is still rejected after removing the failing functions:\n%s' % (prop, out[-1200:]))
    return mod, good, src, refs


def compile_programs(prop, name, head_src, items):
    """items: [(function name, source text)]. compiles head + all items (+ a main that references every function); when the
    compiler rejects or crashes, bisects to the offending items. returns (module, full source without refs/main,
    names compiled, [(name, source, compiler output)] not compiled)"""
    def attempt(its, nm):
        src = head_src + ''.join(t for _, t in its)
        refs = 'refs :: () {\n' + '\n'.join('    r%d := %s;' % (i, n) for i, (n, _) in enumerate(its)) + '\n}\n'
        mod, out = compile_module(prop, nm, src + refs + 'main :: () { refs(); }\n')
        return mod, out, src
    mod, out, src = attempt(items, name)
    if mod is not None:
        return mod, src, [n for n, _ in items], []
    bad = []

    def bisect(its):
        m, o, _ = attempt(its, name + '_bisect')
        if m is not None:
            return
        if len(its) == 1:
            bad.append((its[0][0], its[0][1], o)); return
        h = len(its) // 2
        bisect(its[:h]); bisect(its[h:])
    bisect(items)
    if not bad:
        raise Inconclusive('the %s programs are rejected together but each compiles alone:\n%s' % (prop, out[-1200:]))
    badnames = {b[0] for b in bad}
    good = [it for it in items if it[0] not in badnames]
    mod, out, src = attempt(good, name)
    if mod is None:
        raise Inconclusive('the %s programs are still rejected after removing the failing ones:\n%s' % (prop, out[-1200:]))
    return mod, src, [n for n, _ in good], bad
