"""Shared machinery of the checks: builds, evidence, known findings, exit-code discipline."""
import fcntl
import hashlib
import json
import os
import re
import subprocess
import sys
import time

VERIF = os.path.dirname(os.path.dirname(os.path.abspath(__file__)))
REPO = os.environ.get('VERIF_REPO', '/repo')
BUILD = os.path.join(VERIF, '.build')
CAPY_TARGET = os.path.join(BUILD, 'capy-target')
CAPY = os.path.join(CAPY_TARGET, 'release', 'capy')
EVIDENCE = os.path.join(VERIF, 'evidence')
REPLAYS = os.path.join(VERIF, 'replays')
GUARD = 'capy_verif'
NO_BUILD = False


class Inconclusive(Exception):
    """the check could not decide (build failure, unsupported IR, cap reached, non-reproducing model)"""


def log(*a):
    print(*a, file=sys.stderr, flush=True)


def cargo_env(extra=None):
    env = dict(os.environ)
    env['CARGO_NET_OFFLINE'] = 'true'
    env['RUSTFLAGS'] = '--cfg ' + GUARD
    env.pop('RUSTC_WRAPPER', None)
    if extra:
        env.update(extra)
    return env


class Lock:
    def __init__(self, name):
        os.makedirs(BUILD, exist_ok=True)
        self.path = os.path.join(BUILD, name + '.lock')

    def __enter__(self):
        self.f = open(self.path, 'w')
        fcntl.flock(self.f, fcntl.LOCK_EX)
        return self

    def __exit__(self, *a):
        fcntl.flock(self.f, fcntl.LOCK_UN)
        self.f.close()


def build_capy():
    """cargo build --release -p capy from /repo's working tree with the hooks on; returns the binary path"""
    if NO_BUILD and os.path.exists(CAPY):
        return CAPY
    with Lock('capy-build'):
        t0 = time.time()
        p = subprocess.run(['cargo', 'build', '--release', '-p', 'capy', '--offline', '--target-dir', CAPY_TARGET],
                           cwd=REPO, env=cargo_env(), capture_output=True, text=True)
        if p.returncode != 0:
            raise Inconclusive('building capy from %s failed:\n%s' % (REPO, p.stderr[-3000:]))
        log('[build] capy built in %.1fs' % (time.time() - t0))
    return CAPY


def workdir(prop):
    d = os.path.join(BUILD, 'run', prop)
    os.makedirs(d, exist_ok=True)
    return d


def capy_dump(src_name, cwd, extra_args=(), timeout=40):
    """capy build --verbose-binary all --no-exec; returns (rc, stdout+stderr)"""
    try:
        p = subprocess.run([CAPY, 'build', src_name, '--mod-dir', REPO, '--verbose-binary', 'all', '--no-exec',
                            '--color', 'never', *extra_args], cwd=cwd, capture_output=True, text=True, timeout=timeout,
                           errors='replace')
    except subprocess.TimeoutExpired:
        # a compiler that does not come back is treated like one that failed: callers bisect and report
        return 124, 'error: the compiler timed out after %d s' % timeout
    return p.returncode, p.stdout + p.stderr


def capy_native(src_name, cwd, timeout=120, args=()):
    """build an executable with the real compiler and run it; returns dict(build_rc, build_out, rc, stdout)"""
    exe = os.path.join(cwd, 'out', os.path.splitext(os.path.basename(src_name))[0])
    if os.path.exists(exe):
        os.unlink(exe)
    p = subprocess.run([CAPY, 'build', src_name, '--mod-dir', REPO, '--color', 'never'], cwd=cwd,
                       capture_output=True, text=True, timeout=timeout, errors='replace')
    res = {'build_rc': p.returncode, 'build_out': p.stdout + p.stderr, 'rc': None, 'stdout': None}
    if p.returncode != 0 or not os.path.exists(exe):
        return res
    try:
        q = subprocess.run([exe, *args], cwd=cwd, capture_output=True, timeout=timeout)
        res['rc'] = q.returncode; res['stdout'] = q.stdout.decode('latin1')
    except subprocess.TimeoutExpired:
        res['rc'] = 'timeout'; res['stdout'] = ''
    return res


def compiler_rejected(out):
    return 'not compiling due to previous errors' in out or re.search(r'^error', out, re.M) is not None


# ---- known findings ------------------------------------------------------------------------------

def load_findings():
    path = os.path.join(VERIF, 'known_findings.json')
    if not os.path.exists(path):
        return {'findings': [], 'fixed': []}
    return json.load(open(path))


def finding_for(prop, key):
    """key: dict of role attributes; a listed finding matches when all of ITS attributes equal the key's"""
    for f in load_findings().get('findings', []):
        if f.get('property') != prop:
            continue
        attrs = f.get('key', {})
        if all(key.get(k) == v for k, v in attrs.items()):
            return f
    return None


# ---- result accumulation -----------------------------------------------------------------------

class Check:
    def __init__(self, prop, tier, seed, level):
        self.prop = prop; self.tier = tier; self.seed = seed; self.level = level
        self.t0 = time.time()
        self.violations = []        # dict(key, what, replay)
        self.known = {}             # finding id -> (finding, count)
        self.inconclusive = []
        self.cov = {}
        self.assumptions = []
        self.samples = []
        self.queries = {'sat': 0, 'unsat': 0, 'unknown': 0}
        self.solver_s = 0.0
        self.funcs_encoded = set()
        self.opcodes = set()
        self.bounds = {}

    def sample(self, s, limit=12):
        if len(self.samples) < limit:
            self.samples.append(s)

    def report(self, key, what, replay_path):
        """a natively reproduced counterexample: known finding or violation"""
        f = finding_for(self.prop, key)
        if f is not None:
            fid = f.get('id', json.dumps(f.get('key'), sort_keys=True))
            cnt = self.known.get(fid, (f, 0))[1]
            self.known[fid] = (f, cnt + 1)
            return 'known'
        self.violations.append({'key': key, 'what': what, 'replay': replay_path})
        return 'violation'

    def inconclusive_note(self, msg):
        self.inconclusive.append(msg)

    def finish(self, extra_cov=None):
        wall = time.time() - self.t0
        cov = dict(self.cov)
        if extra_cov:
            cov.update(extra_cov)
        cov.setdefault('samples', self.samples or ['(no samples recorded)'])
        if self.level == 'model_checking':
            cov.setdefault('traces_validated_against_impl', 0)
            cov.setdefault('states', 0); cov.setdefault('transitions', 0)
        if self.level == 'translation_validation':
            cov.setdefault('programs', 0); cov.setdefault('disagreements_checked', 0)
        cov['queries'] = dict(self.queries)
        cov['solver_s'] = round(self.solver_s, 3)
        cov['functions_encoded'] = sorted(self.funcs_encoded)[:400]
        cov['functions_encoded_count'] = len(self.funcs_encoded)
        if self.opcodes:
            cov['opcodes'] = sorted(self.opcodes)
        cov['bounds'] = self.bounds
        cov['known_findings_hit'] = {fid: c for fid, (f, c) in self.known.items()}
        cov['inconclusive'] = self.inconclusive[:20]
        ev = {'property_id': self.prop, 'tier': self.tier, 'seed': self.seed, 'level': self.level,
              'coverage': cov, 'assumptions': self.assumptions, 'wall_s': round(wall, 2),
              'violations': len(self.violations)}
        os.makedirs(EVIDENCE, exist_ok=True)
        tmp = os.path.join(EVIDENCE, self.prop + '.json.tmp')
        with open(tmp, 'w') as fh:
            json.dump(ev, fh, indent=1, default=str)
        os.replace(tmp, os.path.join(EVIDENCE, self.prop + '.json'))
        for fid, (f, c) in self.known.items():
            print('KNOWN-FINDING: property=%s %s (%d case(s) this run; id=%s)' % (self.prop, f.get('what', ''), c, fid))
        for v in self.violations:
            print('VIOLATION property=%s replay=%s' % (self.prop, v['replay']))
            print('  ' + v['what'])
        if self.violations:
            return 1
        if self.inconclusive:
            for m in self.inconclusive[:10]:
                print('INCONCLUSIVE property=%s %s' % (self.prop, m))
            return 2
        print('OK property=%s tier=%s %s wall=%.1fs' % (self.prop, self.tier, json.dumps(self.queries), wall))
        return 0


def stable_hash(s):
    return hashlib.sha1(s.encode()).hexdigest()[:10]


def write_replay(prop, name, payload):
    d = os.path.join(REPLAYS, prop)
    os.makedirs(d, exist_ok=True)
    path = os.path.join(d, name + '.json')
    with open(path, 'w') as fh:
        json.dump(payload, fh, indent=1, default=str)
    return path
