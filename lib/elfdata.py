"""Minimal ELF64 reader: initial bytes of the data objects (globals, strings) of the object file the compiler wrote."""
import struct


def data_objects(path):
    b = open(path, 'rb').read()
    if b[:4] != b'\x7fELF' or b[4] != 2:
        raise ValueError('not an ELF64 file: ' + path)
    shoff = struct.unpack_from('<Q', b, 0x28)[0]
    shentsize, shnum, shstrndx = struct.unpack_from('<HHH', b, 0x3A)
    secs = []
    for i in range(shnum):
        name, typ, flags, addr, off, size, link, info, align, entsize = struct.unpack_from('<IIQQQQIIQQ', b, shoff + i * shentsize)
        secs.append({'name': name, 'type': typ, 'off': off, 'size': size, 'link': link, 'entsize': entsize})
    out = {}
    for s in secs:
        if s['type'] != 2:      # SHT_SYMTAB
            continue
        strtab = secs[s['link']]
        n = s['size'] // 24
        for k in range(n):
            st_name, st_info, st_other, st_shndx, st_value, st_size = struct.unpack_from('<IBBHQQ', b, s['off'] + 24 * k)
            if (st_info & 0xf) != 1 or st_shndx == 0 or st_shndx >= len(secs):     # STT_OBJECT, defined
                continue
            end = b.index(b'\0', strtab['off'] + st_name)
            name = b[strtab['off'] + st_name:end].decode('latin1')
            sec = secs[st_shndx]
            if sec['type'] == 8:    # SHT_NOBITS (.bss)
                out[name] = bytes(st_size)
            else:
                out[name] = b[sec['off'] + st_value: sec['off'] + st_value + st_size]
    return out
