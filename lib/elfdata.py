"""Minimal ELF64 reader: initial bytes of the data objects (globals, strings) of the object file the compiler wrote."""
import struct


def data_objects(path):
    b = open(path, 'rb').read()
    if b[:4] != b'\x7fELF' or b[4] != 2:
        raise ValueError('not an ELF64 file: ' + path)
    shoff = struct.unpack_from('<Q', b, 0x28)[0]
    shentsize, shnum, shstrndx = struct.unpack_from('<HHH', b, 0x3A)
    secs = []
    for i in range(shnum):
        name, typ, flags, addr, off, size, link, info, align, entsize = struct.unpack_from('<IIQQQQIIQQ', b, shoff + i * shentsize)
        secs.append({'name': name, 'type': typ, 'off': off, 'size': size, 'link': link, 'entsize': entsize})
    out = {}
    for s in secs:
        if s['type'] != 2:      # SHT_SYMTAB
            continue
        strtab = secs[s['link']]
        n = s['size'] // 24
        for k in range(n):
            st_name, st_info, st_other, st_shndx, st_value, st_size = struct.unpack_from('<IBBHQQ', b, s['off'] + 24 * k)
            if (st_info & 0xf) != 1 or st_shndx == 0 or st_shndx >= len(secs):     # STT_OBJECT, defined
                continue
            end = b.index(b'\0', strtab['off'] + st_name)
            name = b[strtab['off'] + st_name:end].decode('latin1')
            sec = secs[st_shndx]
            if sec['type'] == 8:    # SHT_NOBITS (.bss)
                out[name] = bytes(st_size)
            else:
                out[name] = b[sec['off'] + st_value: sec['off'] + st_value + st_size]
    return out


def data_relocations(path):
    """R_X86_64_64 relocations inside data objects: {object name: [(offset in object, target symbol, addend)]}.
    A pointer stored in a data object (slices of the reflection tables, member-name strings) is such a relocation."""
    b = open(path, 'rb').read()
    shoff = struct.unpack_from('<Q', b, 0x28)[0]
    shentsize, shnum, shstrndx = struct.unpack_from('<HHH', b, 0x3A)
    secs = []
    for i in range(shnum):
        name, typ, flags, addr, off, size, link, info, align, entsize = struct.unpack_from('<IIQQQQIIQQ', b, shoff + i * shentsize)
        secs.append({'type': typ, 'off': off, 'size': size, 'link': link, 'info': info})
    symtab = [x for x in secs if x['type'] == 2]
    if not symtab:
        return {}
    symtab = symtab[0]; strtab = secs[symtab['link']]
    syms = []
    for k in range(symtab['size'] // 24):
        st_name, st_info, st_other, st_shndx, st_value, st_size = struct.unpack_from('<IBBHQQ', b, symtab['off'] + 24 * k)
        end = b.index(b'\0', strtab['off'] + st_name)
        syms.append({'name': b[strtab['off'] + st_name:end].decode('latin1'), 'type': st_info & 0xf, 'shndx': st_shndx, 'value': st_value, 'size': st_size})
    objs = [x for x in syms if x['type'] == 1 and x['shndx'] != 0]

    def containing(shndx, addr):
        best = None
        for o in objs:
            if o['shndx'] == shndx and o['value'] <= addr and (addr < o['value'] + o['size'] or (o['size'] == 0 and addr == o['value'])):
                if best is None or o['size'] > best['size']:
                    best = o
        return best
    out = {}
    for sct in secs:
        if sct['type'] != 4:          # SHT_RELA
            continue
        target_sec = sct['info']
        for k in range(sct['size'] // 24):
            r_off, r_info, r_add = struct.unpack_from('<QQq', b, sct['off'] + 24 * k)
            if (r_info & 0xffffffff) != 1:      # R_X86_64_64
                continue
            holder = containing(target_sec, r_off)
            if holder is None:
                continue
            sym = syms[r_info >> 32]
            if sym['type'] == 3:                # section symbol: resolve to the object at that address
                tgt = containing(sym['shndx'], r_add)
                if tgt is None:
                    continue
                name, add = tgt['name'], r_add - tgt['value']
            else:
                name, add = sym['name'], r_add
            out.setdefault(holder['name'], []).append((r_off - holder['value'], name, add))
    return out
