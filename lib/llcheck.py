"""Engine-A glue: build the harness crate to LLVM IR + shared library, explore entry points symbolically over
partitions of the input space in parallel worker processes, replay counterexamples natively through ctypes."""
import collections
import ctypes
import json
import multiprocessing as mp
import os
import shutil
import subprocess
import sys
import time
import z3

from . import common
from .common import Inconclusive
from engine.llsym import Module, Exec, State, is_sym

HARNESS_DIRS = {'llharness': os.path.join(common.VERIF, 'llharness'), 'llharness_cg': os.path.join(common.VERIF, 'llharness_cg'),
                'llharness_diag': os.path.join(common.VERIF, 'llharness_diag')}
TOOLCHAIN = '1.88'
BUF = 0x2000_0000
EXPLORE_CAP_S = {'quick': 600, 'thorough': 4 * 3600}


def target_dir(crate, dev):
    return os.path.join(common.BUILD, '%s-target%s' % (crate, '-dev' if dev else ''))


def build_harness(crate='llharness', dev=False):
    """cargo rustc --release -- --emit=llvm-ir on the harness crate (path deps on /repo/crates/*).
    dev=True builds the same optimisation level with debug assertions and overflow checks on."""
    d = HARNESS_DIRS[crate]
    td = target_dir(crate, dev)
    ll = os.path.join(td, 'release', 'deps', crate + '.ll')
    so = os.path.join(td, 'release', 'deps', 'lib' + crate + '.so')
    if common.NO_BUILD and os.path.exists(ll) and os.path.exists(so):
        return ll, so
    with common.Lock('harness-' + crate + ('-dev' if dev else '')):
        shutil.copyfile(os.path.join(common.REPO, 'Cargo.lock'), os.path.join(d, 'Cargo.lock'))
        if crate == 'llharness':
            gen_tokens_table(os.path.join(d, 'src', 'tokens_table.rs'))
        extra = {'RUSTUP_TOOLCHAIN': TOOLCHAIN}
        if dev:
            extra['CARGO_PROFILE_RELEASE_DEBUG_ASSERTIONS'] = 'true'
            extra['CARGO_PROFILE_RELEASE_OVERFLOW_CHECKS'] = 'true'
        t0 = time.time()
        p = subprocess.run(['cargo', 'rustc', '--release', '--offline', '--target-dir', td, '--', '--emit=llvm-ir'],
                           cwd=d, env=common.cargo_env(extra), capture_output=True, text=True)
        if p.returncode != 0 or not os.path.exists(ll):
            raise Inconclusive('building %s from %s failed:\n%s' % (crate, common.REPO, p.stderr[-3000:]))
        common.log('[build] %s%s built in %.1fs' % (crate, ' (dev profile)' if dev else '', time.time() - t0))
    return ll, so


def gen_tokens_table(path):
    """fixed-spelling token kinds from /repo/tokenizer.txt (`Name = 'text'` lines) as a Rust table"""
    import re
    rows = []
    for line in open(os.path.join(common.REPO, 'tokenizer.txt')):
        m = re.match(r"^([A-Za-z]\w*)\s*=\s*'(.*?)'\s*(\|=>.*)?$", line.strip())
        if m:
            rows.append((m.group(1), m.group(2)))
    out = ['// generated from tokenizer.txt by lib/llcheck.py; do not edit', 'use syntax::TokenKind as T;', '',
           'pub fn fixed_text(k: T) -> Option<&\'static str> {', '    match k {']
    for n, t in rows:
        out.append('        T::%s => Some(%s),' % (n, json.dumps(t)))
    out += ['        _ => None,', '    }', '}', '', 'pub fn is_fixed_spelling(t: &str) -> bool {',
            '    matches!(t, %s)' % ' | '.join(json.dumps(t) for _, t in rows), '}', '']
    new = '\n'.join(out)
    if not os.path.exists(path) or open(path).read() != new:
        with open(path, 'w') as fh:
            fh.write(new)


_MODULES = {}


def load_module(ll):
    key = (ll, os.path.getmtime(ll))
    if key not in _MODULES:
        t0 = time.time()
        _MODULES[key] = Module(ll)
        common.log('[llsym] parsed %s: %d functions in %.1fs' % (os.path.basename(ll), len(_MODULES[key].funcs), time.time() - t0))
    return _MODULES[key]


# ---- parallel exploration ---------------------------------------------------------------------------------

class Job:
    """what a worker needs: how to build the initial state for a partition, and how to judge a finished path"""

    def __init__(self, entry, build, judge, max_steps=2_000_000, max_paths=400000, time_cap_s=3600):
        self.entry = entry          # '@harness_x'
        self.build = build          # f(partition) -> (State, args list, inputs dict)
        self.judge = judge          # f(exec, path, inputs) -> None | dict(violation)   ('model' key filled by helper)
        self.max_steps = max_steps; self.max_paths = max_paths; self.time_cap_s = time_cap_s


_JOB = None
_MOD = None


def _worker(part):
    job, mod = _JOB, _MOD
    t0 = time.time()
    ex = Exec(mod, max_steps=job.max_steps)
    st, args, inputs = job.build(part)
    res = {'part': repr(part)[:80], 'paths': 0, 'steps': 0, 'kinds': collections.Counter(), 'violations': [], 'unsupported': [],
           'samples': [], 'queries': 0, 'solver_s': 0.0}
    deadline = t0 + job.time_cap_s

    def on_done(p):
        res['paths'] += 1; res['steps'] += p.steps
        kind = p.end[0]
        res['kinds'][kind] += 1
        if kind == 'infeasible':
            return
        if kind == 'stepbound':
            # a non-termination candidate: keep concrete inputs of the path, the caller replays them natively under a
            # time limit (a native hang is a violation, a native return means the step bound was too small)
            m = None
            try:
                m = model_of(ex, p)
            except Exception:       # noqa
                pass
            if m is not None and len([v for v in res['violations'] if v.get('code') == 'stepbound']) < 6:
                res['violations'].append({'what': 'the step bound of %d executed instructions was exceeded (non-termination candidate)' % job.max_steps,
                                          'code': 'stepbound', 'inputs': eval_inputs(m, inputs)})
            elif m is None and len(res['unsupported']) < 5:
                res['unsupported'].append('%s: %s' % (kind, str(p.end[1])[:300]))
            return
        if kind == 'unsupported':
            if len(res['unsupported']) < 5:
                res['unsupported'].append('%s: %s' % (kind, str(p.end[1])[:300]))
            return
        tj = time.time()
        try:
            v = job.judge(ex, p, inputs)
        except JudgeUnknown as e:
            res['unsupported'].append('judge: %s' % e); res['judged_unknown'] = res.get('judged_unknown', 0) + 1
            return
        res['solver_s'] += time.time() - tj
        res['judged_sat' if v is not None else 'judged_unsat'] = res.get('judged_sat' if v is not None else 'judged_unsat', 0) + 1
        if v is not None and len(res['violations']) < 400:
            res['violations'].append(v)
        if len(res['samples']) < 2:
            try:
                res['samples'].append({'end': kind, 'path_condition_size': len(p.pc), 'example_input': example_input(ex, p, inputs)})
            except JudgeUnknown:
                pass
        if res['paths'] > job.max_paths or time.time() > deadline:
            raise KeyboardInterrupt('cap')
    try:
        ex.run(job.entry, args, st, on_done=on_done)
    except KeyboardInterrupt:
        res['unsupported'].append('cap reached (paths or time) in partition %r' % (part,))
    res['queries'] = ex.nq
    res['solver_s'] += ex.solver_s
    res['wall'] = time.time() - t0
    res['called'] = sorted(ex.called)
    res['kinds'] = dict(res['kinds'])
    return res


class JudgeUnknown(Exception):
    pass


def model_of(ex, p, extra=()):
    s = z3.Solver(); s.set('timeout', 120000); s.add(*p.pc); s.add(*extra)
    r = s.check()
    if r == z3.unknown:
        raise JudgeUnknown('no verdict within 120 s')
    if r != z3.sat:
        return None
    return s.model()


def eval_inputs(model, inputs):
    """inputs: {name: z3 var | [z3 vars] | concrete} -> plain ints / lists of ints"""
    out = {}
    for k, v in inputs.items():
        if isinstance(v, list):
            out[k] = [model.eval(x, model_completion=True).as_long() if is_sym(x) else x for x in v]
        elif is_sym(v):
            out[k] = model.eval(v, model_completion=True).as_long()
        else:
            out[k] = v
    return out


def example_input(ex, p, inputs):
    m = model_of(ex, p)
    return eval_inputs(m, inputs) if m is not None else None


def explore(chk, mod, job, partitions, nproc=None):
    """runs every partition in a forked worker; returns the merged summary. Unsupported/bound => Inconclusive."""
    global _JOB, _MOD
    _JOB, _MOD = job, mod
    nproc = nproc or min(16, max(1, len(partitions)))
    t0 = time.time()
    if nproc == 1 or len(partitions) == 1:
        results = in_child(lambda: [_worker(p) for p in partitions], timeout=job.time_cap_s + 600)
    else:
        ctx = mp.get_context('fork')
        cap = EXPLORE_CAP_S.get(chk.tier, 900)
        results = []
        with ctx.Pool(nproc) as pool:
            it = pool.imap_unordered(_worker, partitions)
            deadline = time.time() + cap
            for _ in range(len(partitions)):
                try:
                    results.append(it.next(timeout=max(1.0, deadline - time.time())))
                except mp.TimeoutError:
                    pool.terminate()
                    chk.inconclusive_note('%s: exploration exceeded the %d s cap of the %s tier (%d of %d partitions done)' % (job.entry, cap, chk.tier, len(results), len(partitions)))
                    break
    tot = {'paths': 0, 'steps': 0, 'kinds': collections.Counter(), 'violations': [], 'unsupported': [], 'samples': [], 'queries': 0}
    for r in results:
        tot['paths'] += r['paths']; tot['steps'] += r['steps']; tot['queries'] += r['queries']
        tot['kinds'].update(r['kinds']); tot['violations'] += r['violations']; tot['unsupported'] += r['unsupported']
        tot['samples'] += r['samples'][:1]
        chk.queries['unsat'] += r.get('judged_unsat', 0); chk.queries['sat'] += r.get('judged_sat', 0); chk.queries['unknown'] += r.get('judged_unknown', 0)
        chk.funcs_encoded.update(demangle_short(n) for n in r.get('called', []))
        chk.solver_s += r.get('solver_s', 0.0)
    tot['wall'] = time.time() - t0
    tot['kinds'] = dict(tot['kinds'])
    chk.cov['states'] = chk.cov.get('states', 0) + tot['paths']
    chk.cov['transitions'] = chk.cov.get('transitions', 0) + tot['steps']
    chk.cov['feasibility_queries'] = chk.cov.get('feasibility_queries', 0) + tot['queries']
    chk.cov.setdefault('path_endings', {})
    for k, v in tot['kinds'].items():
        chk.cov['path_endings'][job.entry + ':' + k] = chk.cov['path_endings'].get(job.entry + ':' + k, 0) + v
    chk.funcs_encoded.add(job.entry)
    for s in tot['samples'][:3]:
        chk.sample(dict(s, entry=job.entry))
    if tot['unsupported']:
        for u in tot['unsupported'][:3]:
            chk.inconclusive_note('%s: %s' % (job.entry, u))
    return tot


def demangle_short(name):
    """readable form of a mangled Rust symbol: the path segments of a legacy-mangled name"""
    import re
    n = name.lstrip('@').strip('"')
    if n.startswith('_ZN'):
        parts = []; i = 3
        while i < len(n) and n[i].isdigit():
            j = i
            while n[j].isdigit():
                j += 1
            ln = int(n[i:j]); parts.append(n[j:j + ln]); i = j + ln
        if parts and re.match(r'^h[0-9a-f]{16}$', parts[-1]):
            parts = parts[:-1]
        return '::'.join(parts).replace('$LT$', '<').replace('$GT$', '>').replace('$u20$', ' ').replace('..', '::').replace('$C$', ',')
    return n


# ---- native calls ------------------------------------------------------------------------------------------

NATIVE_SCRIPT = r'''
import ctypes, json, sys
so, fn, spec = sys.argv[1], sys.argv[2], json.loads(sys.argv[3])
lib = ctypes.CDLL(so)
f = getattr(lib, fn)
args = []; keep = []
for a in spec["args"]:
    if a[0] == "bytes":
        b = ctypes.create_string_buffer(bytes(a[1]), max(len(a[1]), 1)); keep.append(b); args.append(ctypes.cast(b, ctypes.c_void_p))
    else:
        args.append(getattr(ctypes, a[2])(a[1]))
f.restype = getattr(ctypes, spec.get("ret", "c_uint64"))
r = f(*args)
print("RET", int(r))
'''


def native_call(so, fn, args, ret='c_uint64', timeout=60):
    """calls an extern "C" harness function in a child process (a panic aborts the child, not the check).
    args: [('bytes', [ints])] | [('int', value, 'c_uint8'|'c_uint32'|'c_uint64'|'c_size_t')]; returns ('ret', v) | ('died', rc)"""
    spec = {'args': args, 'ret': ret}
    try:
        # the address-space limit turns a loop that allocates without end into a prompt death instead of exhausting the machine
        p = subprocess.run(['bash', '-c', 'ulimit -v 8000000; exec "$@"', 'x', sys.executable, '-c', NATIVE_SCRIPT, so, fn.lstrip('@'), json.dumps(spec)],
                           capture_output=True, text=True, timeout=timeout)
    except subprocess.TimeoutExpired:
        return ('timeout', timeout)
    for line in p.stdout.splitlines():
        if line.startswith('RET '):
            return ('ret', int(line[4:]))
    if 'cannot open shared object file' in p.stderr or 'OSError' in p.stderr:
        # the harness library itself could not be loaded (e.g. it is being rebuilt by another run): nothing was observed
        raise Inconclusive('the harness library %s could not be loaded for a native call: %s' % (so, p.stderr[-200:]))
    return ('died', p.returncode, p.stderr[-400:])


def native_batch(so, fn, arglists, ret='c_uint64', timeout=300):
    """many calls in one child (used by the differential self-test); returns list of ints (or None after a death)"""
    script = NATIVE_SCRIPT.replace('r = f(*args)\nprint("RET", int(r))', '')
    script = r'''
import ctypes, json, sys
so, fn, specs = sys.argv[1], sys.argv[2], json.loads(sys.stdin.read())
lib = ctypes.CDLL(so)
f = getattr(lib, fn)
f.restype = getattr(ctypes, specs["ret"])
for spec in specs["calls"]:
    args = []; keep = []
    for a in spec:
        if a[0] == "bytes":
            b = ctypes.create_string_buffer(bytes(a[1]), max(len(a[1]), 1)); keep.append(b); args.append(ctypes.cast(b, ctypes.c_void_p))
        else:
            args.append(getattr(ctypes, a[2])(a[1]))
    print("RET", int(f(*args)), flush=True)
'''
    p = subprocess.run([sys.executable, '-c', script, so, fn.lstrip('@')], input=json.dumps({'ret': ret, 'calls': arglists}),
                       capture_output=True, text=True, timeout=timeout)
    outs = [int(l[4:]) for l in p.stdout.splitlines() if l.startswith('RET ')]
    return outs + [None] * (len(arglists) - len(outs))


def in_child(fn, timeout=900):
    """runs fn() in a forked child and returns its result. The parent process never touches z3 before it forks the
    exploration workers: z3 keeps helper threads (timers) that do not survive a fork and make children deadlock."""
    ctx = mp.get_context('fork')
    rd, wr = ctx.Pipe(duplex=False)

    def target():
        try:
            wr.send(('ok', fn()))
        except Inconclusive as e:
            wr.send(('inconclusive', str(e)))
        except BaseException as e:       # noqa
            import traceback
            wr.send(('error', traceback.format_exc()[-1500:]))
    p = ctx.Process(target=target)
    p.start()
    if rd.poll(timeout):
        kind, val = rd.recv()
    else:
        kind, val = 'inconclusive', 'child did not answer within %d s' % timeout
        p.kill()
    p.join(10)
    if kind == 'ok':
        return val
    raise Inconclusive(val if kind == 'inconclusive' else 'internal error in a child process: ' + val)


def selftest(chk, mod, so, entry, make_concrete, native_args, cases, ret='c_uint64', ret_bits=64):
    """differential validation of the executor: the same concrete inputs natively and in llsym must agree"""
    ok = in_child(lambda: _selftest(mod, so, entry, make_concrete, native_args, cases, ret, ret_bits))
    chk.cov['traces_validated_against_impl'] = chk.cov.get('traces_validated_against_impl', 0) + ok
    return ok


def _selftest(mod, so, entry, make_concrete, native_args, cases, ret, ret_bits):
    nat = native_batch(so, entry, [native_args(c) for c in cases], ret=ret)
    # a call that dies ends the batch: the cases after it are run again, each in its own child
    for i in range(len(nat)):
        if nat[i] is None and any(x is None for x in nat[:i]):
            r = native_call(so, entry, native_args(cases[i]), ret=ret)
            nat[i] = r[1] if r[0] == 'ret' else None
    ok = 0
    for c, n in zip(cases, nat):
        ex = Exec(mod)
        st, args = make_concrete(c)
        done = ex.run(entry, args, st)
        real = [d for d in done if d.end[0] != 'infeasible']
        if len(real) != 1:
            raise Inconclusive('self-test: concrete run of %s on %r gave %d paths' % (entry, c, len(real)))
        d = real[0]
        if d.end[0] == 'ret':
            v = d.end[1]
            if is_sym(v):
                v = z3.simplify(v)
                if not z3.is_bv_value(v):
                    raise Inconclusive('self-test: concrete run of %s returned a symbolic value' % entry)
                v = v.as_long()
            v = (v or 0) & ((1 << ret_bits) - 1)
            if n is None or v != (n & ((1 << ret_bits) - 1)):
                raise Inconclusive('self-test: executor and native run disagree on %s%r: executor %r native %r — the LLVM semantics transcription is wrong' % (entry, c, v, n))
        else:
            if n is not None and d.end[0] in ('panic', 'abort', 'trap'):
                raise Inconclusive('self-test: executor says %s but the native run returned %r on %s%r' % (d.end[0], n, entry, c))
            if d.end[0] == 'unsupported':
                raise Inconclusive('self-test: %s' % (d.end[1],))
        ok += 1
    return ok


def run_harness_replay(payload):
    """./check <id> --replay for Engine-A findings: rebuild the harness and call the entry point natively"""
    crate = payload.get('crate', 'llharness')
    ll, so = build_harness(crate)
    r = native_call(so, payload['entry'], payload['args'], ret=payload.get('ret', 'c_uint64'))
    print('native call %s(%s) -> %r' % (payload['entry'], payload['args'], r))
    bad = (r[0] in ('died', 'timeout')) or (r[0] == 'ret' and r[1] != payload.get('ok_value', 0))
    print('meaning: %s' % payload.get('what'))
    print('REPRODUCED' if bad else 'NOT REPRODUCED')
    return 1 if bad else 0


def make_harness_replay(prop, name, crate, entry, args, what, key, ret='c_uint64', ok_value=0, extra=None):
    payload = {'property': prop, 'kind': 'harness-call', 'crate': crate, 'entry': entry, 'args': args, 'ret': ret, 'ok_value': ok_value,
               'what': what, 'key': key,
               'how': 'the harness crate (llharness/src/lib.rs) is rebuilt against /repo and `entry` is called natively through ctypes with `args`; a return value other than ok_value, a crash or no return within 60 s reproduces the violation'}
    if extra:
        payload.update(extra)
    return common.write_replay(prop, name, payload)
