"""Obligations over symbolic memory for Engine B: a Capy function whose pointer parameters point into buffers of
symbolic bytes (with guard words on both sides) and whose scalar parameters are symbolic; post-conditions are
z3 goals over initial memory, final memory, result, events and exit status, decided for every path."""
import z3

from . import common, clifcheck, replay as replaylib
from .common import Inconclusive
from .clifcheck import Prover, model_val
from engine.clifsym import State, Engine, Unsupported

GUARD_WORDS = 2
BV = z3.BitVecVal


class Ob:
    """one obligation: a function, its parameters and its post-condition builder"""

    def __init__(self, name, src, params, ret, post, key, pre=None, event_funcs=()):
        self.name = name; self.src = src
        self.params = params       # [('buf', Ty, mutable)] | [('scalar', capy type name)]
        self.ret = ret             # capy scalar type name or None
        self.post = post           # f(ctx, xs) -> [(label, z3 Bool goal)]   (ctx.status tells how the path ended)
        self.key = key
        self.pre = pre             # f(xs) -> [z3 Bool]
        self.event_funcs = set(event_funcs)
        self.handles_abort = False  # post() also speaks about paths that end in the abort sequence


class Ctx:
    """what a post-condition can talk about"""

    def __init__(self, eng, path, args, bufs, init_mem):
        self.eng = eng; self.path = path; self.args = args; self.bufs = bufs; self.init = init_mem
        self.status = 'ret' if path.status == 'ret' else 'abort'
        self.ret = path.ret[0] if path.status == 'ret' and path.ret else None
        self.events = getattr(path, 'events', [])

    def init_byte(self, buf, i):
        return z3.Select(self.init, BV(buf['obj'] + i, 64))

    def final_byte(self, buf, i):
        return z3.simplify(z3.Select(self.path.mem, BV(buf['obj'] + i, 64)))

    def unchanged(self, buf, i):
        return self.final_byte(buf, i) == self.init_byte(buf, i)

    def init_bytes(self, buf, off, n):
        bs = [self.init_byte(buf, off + k) for k in range(n)]
        return z3.Concat(*reversed(bs)) if n > 1 else bs[0]

    def final_bytes(self, buf, off, n):
        bs = [self.final_byte(buf, off + k) for k in range(n)]
        return z3.Concat(*reversed(bs)) if n > 1 else bs[0]

    def marks(self):
        """arguments of mark() events in order"""
        return [a[0] for (n, a) in self.events if n == 'mark']

    def accesses_inside(self):
        """every load and store of the path lies inside a buffer OBJECT (not its guards), a stack slot or a data object
        (formulas recorded by the executor at the time of each access)"""
        goals = []
        for acc in list(self.path.loads) + list(self.path.stores):
            inside = acc[4] if len(acc) > 4 else None
            if inside is None:
                continue
            if inside is True:
                continue
            if inside is False:
                goals.append(z3.BoolVal(False)); continue
            goals.append(inside)
        return z3.And(*goals) if goals else z3.BoolVal(True)


def frame(ctx, buf, modifies):
    """all bytes of the buffer (guards included) outside `modifies` [(off, size)] are unchanged"""
    goals = []
    lo = -8 * GUARD_WORDS; hi = buf['words'] * 8 - 8 * GUARD_WORDS
    for i in range(lo, hi):
        if any(o <= i < o + n for o, n in modifies):
            continue
        goals.append(ctx.unchanged(buf, i))
    return z3.And(*goals) if goals else z3.BoolVal(True)


def bytes_eq(ctx, buf, off, val):
    n = val.size() // 8
    return ctx.final_bytes(buf, off, n) == val


def setup(eng, ob):
    st = State()
    args = []; xs = []; bufs = []; pre = []
    for p in ob.params:
        if p[0] == 'buf':
            ty = p[1]
            words = (ty.size() + 7) // 8 + 2 * GUARD_WORDS
            r = eng.add_region(st, words * 8, 'guard%d' % len(bufs), kind='guard')
            obj = r.lo + 8 * GUARD_WORDS
            if ty.size():
                eng.add_region(st, ty.size(), 'buf%d' % len(bufs), kind='param', lo=obj)
            bufs.append({'lo': r.lo, 'obj': obj, 'words': words, 'ty': ty, 'mutable': p[2]})
            args.append(BV(obj, 64))
        elif p[0] == 'alias':       # a second pointer to an earlier buffer
            args.append(BV(bufs[p[1]]['obj'], 64))
        else:
            t = p[1]
            v = z3.BitVec('x%d' % len(xs), clifcheck.bits_of(t))
            if t == 'bool':
                pre.append(z3.ULE(v, 1))
            xs.append(v); args.append(v)
    return st, args, xs, bufs, pre


def check_ob(chk, prover, mod, ob, tsrc, track_loads=False, max_visits=8, data=None):
    prop = chk.prop
    eng = Engine(mod, max_visits=max_visits, track_loads=track_loads, event_funcs=ob.event_funcs, data=data)
    st, args, xs, bufs, pre = setup(eng, ob)
    if ob.pre:
        pre = pre + ob.pre(xs)
    st.pc.extend(pre)
    init_mem = st.mem
    try:
        paths = eng.run(mod.by_pretty(ob.name), args, st)
    except Unsupported as e:
        raise Inconclusive('%s: %s' % (ob.name, e))
    chk.funcs_encoded.update(eng.funcs_run)
    chk.solver_s += eng.solver_s
    chk.cov['ir_instructions_executed'] = chk.cov.get('ir_instructions_executed', 0) + eng.steps_total
    chk.cov['paths'] = chk.cov.get('paths', 0) + len(paths)
    nbad = 0
    for p in paths:
        if p.status == 'bound':
            raise Inconclusive(ob.name + ': path cut at the unwinding bound')
        hyps = list(p.pc)
        ctx = Ctx(eng, p, args, bufs, init_mem)
        if p.status != 'ret' and not ob.handles_abort:
            goals = [('the operation does not abort', z3.BoolVal(False))]
        else:
            goals = ob.post(ctx, xs)
            if p.status != 'ret':
                goals = goals + abort_shape(ctx)
        if p.wild:
            w = p.wild[0]
            key = dict(ob.key, failure='wild-write')
            what = '%s: store of %d bytes at %s by `%s` in %s lies outside every live object (frame escape)' % (ob.name, w['bytes'], w['addr'], w['inst'], w['func'])
            path = common.write_replay(prop, 'wild_' + ob.name, {'property': prop, 'kind': 'compile', 'what': what, 'key': key,
                                                                 'source': tsrc[0] + tsrc[1] + 'main :: () { refs(); }\n', 'wild': p.wild[:3],
                                                                 'note': 'not reproducible by running: triage by reading the CLIF of the named function'})
            chk.cov.setdefault('wild_writes', []).append(what)
            chk.report(key, what, path)
            nbad += 1
        for label, goal in goals:
            r, model = prover.prove(hyps, goal)
            if r == 'unsat':
                continue
            if r == 'unknown':
                chk.inconclusive_note('%s: no verdict on "%s"' % (ob.name, label)); continue
            nbad += 1
            reproduce(chk, mod, ob, xs, bufs, init_mem, model, label, tsrc)
            break
    chk.sample({'function': ob.src, 'paths': len(paths), 'obligations': 'post-condition for all scalar inputs and all initial bytes of the buffers',
                'verdict': 'holds' if nbad == 0 else 'counterexample'}, limit=10)
    return nbad


def abort_shape(ctx):
    """a path that aborts must be the language's abort sequence: puts(message); exit(1)"""
    p = ctx.path
    goals = []
    ok_events = all(n in ('puts', 'mark') for n, _ in p.events) and any(n == 'puts' for n, _ in p.events)
    goals.append(('abort prints a message and nothing else', z3.BoolVal(bool(ok_events))))
    if p.status == 'exit':
        goals.append(('abort exits with status 1', p.exit_code == BV(1, p.exit_code.size())))
    else:
        goals.append(('abort goes through exit(1), not a bare trap', z3.BoolVal(False)))
    return goals


def concrete_args(ob, xs, bufs, init_mem, model):
    """NativeBatch arguments from a model: buffers (with guards) as little-endian ints"""
    nargs = []; ptr_args = []
    xi = 0; bi = 0
    buf_arg = []
    for p in ob.params:
        if p[0] == 'alias':
            b = bufs[p[1]]
            nargs.append((('alias', buf_arg[p[1]], b['ty'].src(), True, GUARD_WORDS), 0))
        elif p[0] == 'buf':
            b = bufs[bi]; bi += 1
            buf_arg.append(len(nargs))
            v = 0
            for i in range(b['words'] * 8):
                byte = model.eval(z3.Select(init_mem, BV(b['lo'] + i, 64)), model_completion=True).as_long()
                v |= byte << (8 * i)
            nargs.append((('ptr', b['ty'].src(), b['ty'].size(), b['mutable'], GUARD_WORDS), v))
            ptr_args.append((len(nargs) - 1, b['words'] * 8))
        else:
            nargs.append((p[1], model_val(model, xs[xi]))); xi += 1
    return nargs, ptr_args


class NativePath:
    """the native observation in the shape of an executor path, so the same goals can be evaluated on it"""
    pass


def reproduce(chk, mod, ob, xs, bufs, init_mem, model, label, tsrc):
    """run the model's inputs natively; report when the native observation also breaks a goal"""
    prop = chk.prop
    nargs, ptr_args = concrete_args(ob, xs, bufs, init_mem, model)
    nb = clifcheck.NativeBatch(prop, 'replay_' + ob.name, tsrc[0])
    nb.add(ob.name, nargs, ob.ret, ptr_args)
    res = nb.run()
    if res is None:
        chk.inconclusive_note('%s: replay program did not build (%s)' % (ob.name, (nb.last.get('build_out') or '')[-300:]))
        return
    eng = Engine(mod, max_visits=8)
    st, args, xs2, bufs2, pre = setup(eng, ob)
    m = st.mem
    for b, b2 in zip(bufs, bufs2):
        for i in range(b['words'] * 8):
            byte = model.eval(z3.Select(init_mem, BV(b['lo'] + i, 64)), model_completion=True).as_long()
            m = z3.Store(m, BV(b2['lo'] + i, 64), BV(byte, 8))
    init_conc = m
    pth = NativePath(); pth.loads = []; pth.stores = []; pth.wild = []
    if res[0] is None:
        # the program ended inside the call
        pth.status = 'exit'; pth.ret = None; pth.mem = init_conc
        pth.exit_code = BV(nb.last['rc'] if isinstance(nb.last['rc'], int) else 255, 32)
        out_lines = [l for l in nb.partial.split('\n') if l.strip()]
        pth.events = [('mark', [BV(int(l[1:], 16), 64)]) for l in out_lines if len(l) == 17 and l[0] == 'm']
        if any(not (len(l) == 17 and l[0] == 'm') for l in out_lines):
            pth.events.append(('puts', []))
        if not (isinstance(nb.last['rc'], int) and nb.last['rc'] >= 0):
            pth.status = 'trap'
    else:
        vals = res[0]
        native_vals = [v for v in vals if isinstance(v, int)]
        pth.status = 'ret'
        pth.events = [('mark', [BV(v[1], 64)]) for v in vals if isinstance(v, tuple) and v[0] == 'mark']
        k = 0
        retv = None
        if ob.ret is not None:
            retv = native_vals[0]; k = 1
        fin = init_conc
        for b2 in bufs2:
            for w in range(b2['words']):
                word = native_vals[k]; k += 1
                for j in range(8):
                    fin = z3.Store(fin, BV(b2['lo'] + 8 * w + j, 64), BV((word >> (8 * j)) & 0xff, 8))
        pth.mem = fin
        pth.ret = [BV(retv & ((1 << clifcheck.bits_of(ob.ret)) - 1), clifcheck.bits_of(ob.ret))] if retv is not None else None
    ctx = Ctx(eng, pth, args, bufs2, init_conc)
    cx = [BV(model_val(model, v), v.size()) for v in xs]
    if pth.status != 'ret' and not ob.handles_abort:
        goals = [('the operation does not abort', z3.BoolVal(False))]
    else:
        goals = ob.post(ctx, cx)
        if pth.status != 'ret':
            goals = goals + abort_shape(ctx)
    failed = [lab for lab, g in goals if not z3.is_true(z3.simplify(g))]
    what = '%s — violated: %s; inputs %s' % (ob.src.split('\n')[-1], failed or label, [hex(model_val(model, v)) for v in xs])
    if not failed:
        chk.inconclusive_note('model for %s ("%s") did not reproduce natively (native status %s)' % (ob.name, label, pth.status))
        return
    path = replaylib.make_native_replay(prop, ob.name, nb.source(), None, None, nb.last['stdout'], nb.last['rc'], what, ob.key,
                                        extra={'violated_goals': failed, 'how': 'the printed words are the result and the buffers after the call; the goals named in violated_goals fail on them; `./check %s --replay` re-runs the program and compares with the recorded observation' % prop})
    chk.report(ob.key, what, path)
