"""mini-Capy: a small AST for the supported fragment, a printer to Capy source, and a REFERENCE SEMANTICS — a symbolic
big-step interpreter written from README.md (lexical scoping with shadowing, wrapping two's-complement arithmetic,
casts by source signedness, aggregates are values, defers LIFO when their block is left by any route, bounds checks
and #unwrap abort with exit status 1). It never looks at the compiler.

Values:  ('i', bits, signed, z3 bv) | ('b', z3 Bool) | ('s', type name, {field: value}) | ('a', [values]) |
         ('o', z3 Bool present, payload value) | ('v',) void
Paths are explored by re-execution with a decision prefix (one entry per symbolic branch condition).
"""
import z3

BV = z3.BitVecVal

INTS = {'i8': (8, True), 'i16': (16, True), 'i32': (32, True), 'i64': (64, True), 'u8': (8, False), 'u16': (16, False),
        'u32': (32, False), 'u64': (64, False), 'isize': (64, True), 'usize': (64, False)}


# ---- types: 'i32' | 'bool' | ('struct', name) | ('array', n, elem) | ('opt', elem) -----------------------------------

def ty_src(t):
    if isinstance(t, str):
        return t
    if t[0] == 'struct':
        return t[1]
    if t[0] == 'array':
        return '[%d]%s' % (t[1], ty_src(t[2]))
    if t[0] == 'opt':
        return '?' + ty_src(t[1])
    raise ValueError(t)


# ---- printer -------------------------------------------------------------------------------------------------------------

BINOPS = {'add': '+', 'sub': '-', 'mul': '*', 'div': '/', 'rem': '%', 'and': '&', 'or': '|', 'xor': '~', 'shl': '<<', 'shr': '>>',
          'lt': '<', 'le': '<=', 'gt': '>', 'ge': '>=', 'eq': '==', 'ne': '!=', 'land': '&&', 'lor': '||'}


def ex(e):
    k = e[0]
    if k == 'int':
        return '%s.(%d)' % (e[2], e[1]) if e[1] >= 0 else '%s.(0 - %d)' % (e[2], -e[1])
    if k == 'bool':
        return 'true' if e[1] else 'false'
    if k == 'var':
        return e[1]
    if k == 'bin':
        return '(%s %s %s)' % (ex(e[2]), BINOPS[e[1]], ex(e[3]))
    if k == 'cast':
        return '%s.(%s)' % (ty_src(e[1]), ex(e[2]))
    if k == 'neg':
        return '(-%s)' % ex(e[1])
    if k == 'bnot':
        return '(~%s)' % ex(e[1])
    if k == 'not':
        return '(!%s)' % ex(e[1])
    if k == 'field':
        return '%s.%s' % (ex(e[1]), e[2])
    if k == 'index':
        return '%s[%s]' % (ex(e[1]), ex(e[2]))
    if k == 'call':
        return '%s(%s)' % (e[1], ', '.join(ex(a) for a in e[2]))
    if k == 'ifx':
        return 'if %s { %s } else { %s }' % (ex(e[1]), ex(e[2]), ex(e[3]))
    if k == 'struct':
        return '%s.{ %s }' % (e[1], ', '.join('%s = %s' % (n, ex(v)) for n, v in e[2]))
    if k == 'array':
        if isinstance(e[1], tuple) and e[1][0] == 'opt':      # `?T.[..]` is not a type prefix: the annotation gives the type
            return '.[%s]' % ', '.join(ex(v) for v in e[2])
        return '%s.[%s]' % (ty_src(e[1]), ', '.join(ex(v) for v in e[2]))
    if k == 'nil':
        return 'nil'
    if k == 'unwrap':
        return '#unwrap(%s)' % ex(e[1])
    if k == 'isvar':
        return '#is_variant(%s, %s)' % (ex(e[1]), 'nil' if e[2] == 'nil' else ty_src(e[2]))
    if k == 'blockx':
        return '`%s: {\n%s\n}' % (e[1], stmts_src(e[2], 2))
    raise ValueError(k)


def strip_parens(t):
    if t.startswith('(') and t.endswith(')'):
        depth = 0
        for i, ch in enumerate(t):
            depth += (ch == '(') - (ch == ')')
            if depth == 0 and i < len(t) - 1:
                return t
        return t[1:-1]
    return t


def stmts_src(ss, ind=1):
    out = []
    pad = '    ' * ind
    for s in ss:
        k = s[0]
        if k == 'let':
            _, name, t, e, mutable = s
            out.append('%s%s : %s %s %s;' % (pad, name, ty_src(t), '=' if mutable else ':', ex(e)))
        elif k == 'letx':      # no annotation
            out.append('%s%s %s %s;' % (pad, s[1], ':=' if s[3] else '::', ex(s[2])))
        elif k == 'assign':
            out.append('%s%s = %s;' % (pad, ex(s[1]), ex(s[2])))
        elif k == 'opassign':
            out.append('%s%s %s= %s;' % (pad, ex(s[1]), BINOPS[s[2]], ex(s[3])))
        elif k == 'mark':
            out.append('%smark(u64.(%s));' % (pad, ex(s[1])))
        elif k == 'markc':
            out.append('%smark(%d);' % (pad, s[1]))
        elif k == 'if':
            out.append('%sif %s {' % (pad, strip_parens(ex(s[1])))); out.append(stmts_src(s[2], ind + 1))
            if s[3] is not None:
                out.append(pad + '} else {'); out.append(stmts_src(s[3], ind + 1))
            out.append(pad + '}')
        elif k == 'while':
            out.append(pad + ('`%s: ' % s[3] if s[3] else '') + 'while %s {' % strip_parens(ex(s[1]))); out.append(stmts_src(s[2], ind + 1)); out.append(pad + '}')
        elif k == 'block':
            out.append(pad + ('`%s: ' % s[1] if s[1] else '') + '{'); out.append(stmts_src(s[2], ind + 1)); out.append(pad + '}')
        elif k == 'break':
            out.append(pad + 'break' + (' `%s' % s[1] if s[1] else '') + (' ' + ex(s[2]) if len(s) > 2 and s[2] is not None else '') + ';')
        elif k == 'continue':
            out.append(pad + 'continue' + (' `%s' % s[1] if s[1] else '') + ';')
        elif k == 'return':
            out.append(pad + 'return' + (' ' + ex(s[1]) if s[1] is not None else '') + ';')
        elif k == 'defer':
            out.append(pad + 'defer ' + stmts_src([s[1]], 0).strip())
        elif k == 'switch':
            _, name, scrut, arms = s
            out.append('%sswitch %s in %s {' % (pad, name, ex(scrut)))
            for head, body in arms:
                out.append('%s    %s => {' % (pad, 'nil' if head == 'nil' else ('_' if head == '_' else ty_src(head))))
                out.append(stmts_src(body, ind + 2)); out.append(pad + '    },')
            out.append(pad + '}')
        elif k == 'expr':
            out.append('%s%s;' % (pad, ex(s[1])))
        else:
            raise ValueError(k)
    return '\n'.join(out)


def func_src(f):
    ps = ', '.join(('comptime ' if p.get('comptime') else '') + '%s: %s' % (p['name'], ty_src(p['ty'])) for p in f['params'])
    tail = '\n    tail__ : %s = %s;\n    tail__' % (ty_src(f['ret']), ex(f['tail'])) if f.get('tail') is not None else ''
    return '%s :: (%s)%s {\n%s%s\n}\n' % (f['name'], ps, ' -> ' + ty_src(f['ret']) if f.get('ret') else '', stmts_src(f['body']), tail)


# ---- reference semantics ---------------------------------------------------------------------------------------------

class Abort(Exception):
    pass


class Jump(Exception):
    def __init__(self, kind, label=None, value=None):
        self.kind = kind; self.label = label; self.value = value


class NeedFork(Exception):
    def __init__(self, cond):
        self.cond = cond


class RefError(Exception):
    """the program is outside the fragment the reference semantics defines"""


def ival(bits, signed, v):
    return ('i', bits, signed, z3.simplify(v))


class Interp:
    def __init__(self, program, solver_timeout_ms=20000):
        self.funcs = {f['name']: f for f in program['funcs']}
        self.structs = program.get('structs', {})          # name -> [(field, type)]
        self.globals = program.get('globals', {})          # name -> (type, expr)
        self.solver = z3.Solver(); self.solver.set('timeout', solver_timeout_ms)

    # -- path driver
    def paths(self, fname, args, pre=()):
        """[(pc list, events, result value or None, status 'ret'|'abort')]"""
        out = []
        work = [[]]
        while work:
            prefix = work.pop()
            self.decisions = list(prefix); self.dpos = 0; self.pc = list(pre); self.events = []
            try:
                try:
                    res = self.call(fname, args)
                    out.append((list(self.pc), list(self.events), res, 'ret'))
                except Abort:
                    out.append((list(self.pc), list(self.events), None, 'abort'))
            except NeedFork as nf:
                for d in (True, False):
                    c = nf.cond if d else z3.Not(nf.cond)
                    self.solver.push(); self.solver.add(*self.pc); self.solver.add(c)
                    r = self.solver.check(); self.solver.pop()
                    if r == z3.unknown:
                        raise RefError('solver gave no verdict in the reference interpreter')
                    if r == z3.sat:
                        work.append(self.decisions[:self.dpos] + [d])
            if len(out) + len(work) > 4000:
                raise RefError('too many reference paths')
        return out

    def decide(self, cond):
        cond = z3.simplify(cond)
        if z3.is_true(cond):
            return True
        if z3.is_false(cond):
            return False
        if self.dpos < len(self.decisions):
            d = self.decisions[self.dpos]; self.dpos += 1
            self.pc.append(cond if d else z3.Not(cond))
            return d
        raise NeedFork(cond)

    # -- calls
    def call(self, fname, args):
        f = self.funcs[fname]
        env = [dict((p['name'], [a, False]) for p, a in zip(f['params'], args))]
        self.fn_stack = getattr(self, 'fn_stack', []) + [f]
        try:
            try:
                v = self.block(f['body'], env, None, tail=f.get('tail'), ret_ty=f.get('ret'))
            except Jump as j:
                if j.kind == 'return':
                    v = j.value
                else:
                    raise RefError('jump escaped the function: %s' % j.kind)
        finally:
            self.fn_stack = self.fn_stack[:-1]
        if f.get('ret') and v is not None:
            v = self.coerce(v, f['ret'])
        return v

    # -- blocks and statements
    def block(self, stmts, env, label, tail=None, ret_ty=None):
        """runs one block in a new scope; its defers run, LIFO, however the block is left"""
        scope = {}
        env = env + [scope]
        defers = []
        try:
            for s in stmts:
                self.stmt(s, env, defers)
            if tail is not None:
                return self.expr(tail, env, ret_ty)
            return None
        finally:
            # (an abort does not run defers: the program exits)
            import sys
            et = sys.exc_info()[0]
            if et is None or issubclass(et, Jump):
                for d in reversed(defers):
                    self.stmt(d, env, [])

    def lookup(self, env, name):
        for sc in reversed(env):
            if name in sc:
                return sc[name]
        if name in self.globals:
            t, e = self.globals[name]
            return [self.expr(e, [], t), False]
        raise RefError('unbound name ' + name)

    def stmt(self, s, env, defers):
        k = s[0]
        if k == 'let':
            _, name, t, e, mutable = s
            env[-1][name] = [self.expr(e, env, t), mutable]
        elif k == 'letx':
            env[-1][s[1]] = [self.expr(s[2], env, None), s[3]]
        elif k == 'assign':
            self.assign(s[1], self.expr(s[2], env, self.type_of_lvalue(s[1], env)), env)
        elif k == 'opassign':
            cur = self.expr(s[1], env, None)
            rhs = self.expr(s[3], env, ('i', cur[1], cur[2]) if cur[0] == 'i' else None)
            self.assign(s[1], self.binop(s[2], cur, rhs), env)
        elif k == 'mark':
            v = self.expr(s[1], env, None)
            self.events.append(('mark', self.to_u64(v)))
        elif k == 'markc':
            self.events.append(('mark', BV(s[1], 64)))
        elif k == 'if':
            c = self.expr(s[1], env, 'bool')
            if self.decide(c[1]):
                self.block(s[2], env, None)
            elif s[3] is not None:
                self.block(s[3], env, None)
        elif k == 'while':
            n = 0
            while True:
                c = self.expr(s[1], env, 'bool')
                if not self.decide(c[1]):
                    break
                n += 1
                if n > 64:
                    raise RefError('loop bound exceeded in the reference interpreter')
                try:
                    self.block(s[2], env, None)
                except Jump as j:
                    if j.kind == 'continue' and (j.label is None or j.label == s[3]):
                        continue
                    if j.kind == 'break' and (j.label is None or j.label == s[3]):
                        break
                    raise
        elif k == 'block':
            try:
                self.block(s[2], env, s[1])
            except Jump as j:
                if j.kind == 'break' and s[1] is not None and (j.label is None or j.label == s[1]):
                    pass
                else:
                    raise
        elif k == 'break':
            v = self.expr(s[2], env, None) if len(s) > 2 and s[2] is not None else None
            raise Jump('break', s[1], v)
        elif k == 'continue':
            raise Jump('continue', s[1])
        elif k == 'return':
            f = self.fn_stack[-1]
            raise Jump('return', None, self.expr(s[1], env, f.get('ret')) if s[1] is not None else None)
        elif k == 'defer':
            defers.append(s[1])
        elif k == 'switch':
            _, name, scrut, arms = s
            v = self.expr(scrut, env, None)
            if v[0] != 'o':
                raise RefError('switch over a non-optional')
            present = self.decide(v[1])
            for head, body in arms:
                if (head == 'nil' and not present) or (head not in ('nil', '_') and present) or head == '_':
                    scope = {name: [v[2] if (present and head != '_') else (('v',) if head == 'nil' else v), False]}
                    self.block(body, env + [scope], None)
                    break
            else:
                raise RefError('non-exhaustive switch')
        elif k == 'expr':
            self.expr(s[1], env, None)
        else:
            raise RefError('statement ' + k)

    def type_of_lvalue(self, lv, env):
        v = self.expr(lv, env, None)
        return self.type_of(v)

    def type_of(self, v):
        if v[0] == 'i':
            return ('i', v[1], v[2])
        if v[0] == 'b':
            return 'bool'
        return None

    def assign(self, lv, val, env):
        if lv[0] == 'var':
            cell = self.lookup(env, lv[1])
            cell[0] = self.coerce_like(val, cell[0])
        elif lv[0] == 'field':
            base = self.expr(lv[1], env, None)
            newf = dict(base[2]); newf[lv[2]] = self.coerce_like(val, base[2][lv[2]])
            self.assign(lv[1], ('s', base[1], newf), env)
        elif lv[0] == 'index':
            base = self.expr(lv[1], env, None)
            idx = self.expr(lv[2], env, 'usize')
            self.bounds(idx, len(base[1]))
            items = []
            for j, it in enumerate(base[1]):
                items.append(self.ite(idx[3] == j, self.coerce_like(val, it), it))
            self.assign(lv[1], ('a', items), env)
        else:
            raise RefError('assignment target ' + lv[0])

    def bounds(self, idx, n):
        if not self.decide(z3.ULT(idx[3], n)):
            raise Abort()

    def ite(self, c, a, b):
        if a[0] == 'i':
            return ival(a[1], a[2], z3.If(c, a[3], b[3]))
        if a[0] == 'b':
            return ('b', z3.If(c, a[1], b[1]))
        if a[0] == 's':
            return ('s', a[1], {k: self.ite(c, a[2][k], b[2][k]) for k in a[2]})
        if a[0] == 'a':
            return ('a', [self.ite(c, x, y) for x, y in zip(a[1], b[1])])
        if a[0] == 'o':
            return ('o', z3.If(c, a[1], b[1]), self.ite(c, a[2], b[2]))
        return a

    # -- expressions
    def norm_ty(self, t):
        if isinstance(t, str) and t in INTS:
            return ('i',) + INTS[t]
        return t

    def coerce(self, v, t):
        """implicit widening of an integer value to the expected integer type (by SOURCE signedness)"""
        t = self.norm_ty(t)
        if t is None:
            return v
        if isinstance(t, tuple) and t[0] == 'i' and v[0] == 'i':
            return self.int_to(v, t[1], t[2])
        if isinstance(t, tuple) and t[0] == 'opt' and v[0] != 'o':
            inner = self.coerce(v, t[1]) if v[0] != 'v' else self.default(t[1])
            return ('o', z3.BoolVal(v[0] != 'v' and v != ('nil',)), inner) if v != ('nil',) else ('o', z3.BoolVal(False), self.default(t[1]))
        return v

    def coerce_like(self, v, like):
        if like[0] == 'i' and v[0] == 'i':
            return self.int_to(v, like[1], like[2])
        if like[0] == 'o' and v[0] != 'o':
            if v == ('nil',):
                return ('o', z3.BoolVal(False), like[2])
            return ('o', z3.BoolVal(True), self.coerce_like(v, like[2]))
        return v

    def default(self, t):
        t = self.norm_ty(t)
        if isinstance(t, tuple) and t[0] == 'i':
            return ival(t[1], t[2], BV(0, t[1]))
        if t == 'bool':
            return ('b', z3.BoolVal(False))
        if isinstance(t, tuple) and t[0] == 'struct':
            return ('s', t[1], {n: self.default(ft) for n, ft in self.structs[t[1]]})
        if isinstance(t, tuple) and t[0] == 'array':
            return ('a', [self.default(t[2]) for _ in range(t[1])])
        if isinstance(t, tuple) and t[0] == 'opt':
            return ('o', z3.BoolVal(False), self.default(t[1]))
        raise RefError('default of %r' % (t,))

    def int_to(self, v, bits, signed):
        x = v[3]
        if bits > v[1]:
            x = z3.SignExt(bits - v[1], x) if v[2] else z3.ZeroExt(bits - v[1], x)
        elif bits < v[1]:
            x = z3.Extract(bits - 1, 0, x)
        return ival(bits, signed, x)

    def to_u64(self, v):
        if v[0] == 'i':
            return self.int_to(v, 64, False)[3]
        if v[0] == 'b':
            return z3.simplify(z3.If(v[1], BV(1, 64), BV(0, 64)))
        raise RefError('mark of a non-scalar')

    def expr(self, e, env, want):
        want = self.norm_ty(want)
        k = e[0]
        if isinstance(want, tuple) and want[0] == 'opt' and k != 'nil':
            # a payload-typed expression where an optional is expected: evaluate at the payload type, then wrap
            return self.coerce(self.expr(e, env, want[1]), want)
        if k == 'int':
            bits, signed = INTS[e[2]]
            return self.coerce(ival(bits, signed, BV(e[1], bits)), want)
        if k == 'bool':
            return ('b', z3.BoolVal(e[1]))
        if k == 'var':
            return self.coerce(self.lookup(env, e[1])[0], want)
        if k == 'cast':
            v = self.expr(e[2], env, None)
            t = self.norm_ty(e[1])
            if v[0] == 'i' and isinstance(t, tuple) and t[0] == 'i':
                return self.int_to(v, t[1], t[2])
            if v[0] == 'b' and isinstance(t, tuple) and t[0] == 'i':
                return ival(t[1], t[2], z3.If(v[1], BV(1, t[1]), BV(0, t[1])))
            raise RefError('cast %r' % (e[1],))
        if k == 'bin':
            op = e[1]
            if op in ('land', 'lor'):
                a = self.expr(e[2], env, 'bool')
                if op == 'land':
                    if not self.decide(a[1]):
                        return ('b', z3.BoolVal(False))
                    return self.expr(e[3], env, 'bool')
                if self.decide(a[1]):
                    return ('b', z3.BoolVal(True))
                return self.expr(e[3], env, 'bool')
            a = self.expr(e[2], env, None); b = self.expr(e[3], env, None)
            r = self.binop(op, a, b)
            return self.coerce(r, want) if r[0] == 'i' else r
        if k == 'neg':
            v = self.expr(e[1], env, want)
            return ival(v[1], v[2], -v[3])
        if k == 'bnot':
            v = self.expr(e[1], env, want)
            return ival(v[1], v[2], ~v[3])
        if k == 'not':
            v = self.expr(e[1], env, 'bool')
            return ('b', z3.Not(v[1]))
        if k == 'field':
            return self.coerce(self.expr(e[1], env, None)[2][e[2]], want)
        if k == 'index':
            base = self.expr(e[1], env, None)
            idx = self.expr(e[2], env, 'usize')
            self.bounds(idx, len(base[1]))
            r = base[1][-1]
            for j in range(len(base[1]) - 2, -1, -1):
                r = self.ite(idx[3] == j, base[1][j], r)
            return self.coerce(r, want)
        if k == 'call':
            f = self.funcs[e[1]]
            args = [self.expr(a, env, p['ty']) for a, p in zip(e[2], f['params'])]
            return self.coerce(self.call(e[1], args), want)
        if k == 'ifx':
            c = self.expr(e[1], env, 'bool')
            return self.expr(e[2] if self.decide(c[1]) else e[3], env, want)
        if k == 'struct':
            return ('s', e[1], {n: self.expr(v, env, dict(self.structs[e[1]])[n]) for n, v in e[2]})
        if k == 'array':
            return ('a', [self.expr(v, env, e[1]) for v in e[2]])
        if k == 'nil':
            if isinstance(want, tuple) and want[0] == 'opt':
                return ('o', z3.BoolVal(False), self.default(want[1]))
            return ('nil',)
        if k == 'unwrap':
            v = self.expr(e[1], env, None)
            if not self.decide(v[1]):
                raise Abort()
            return self.coerce(v[2], want)
        if k == 'isvar':
            v = self.expr(e[1], env, None)
            return ('b', z3.Not(v[1]) if e[2] == 'nil' else v[1])
        if k == 'blockx':
            try:
                self.block(e[2], env, e[1])
                raise RefError('value block fell through')
            except Jump as j:
                if j.kind == 'break' and j.label == e[1]:
                    return self.coerce(j.value, want)
                raise
        raise RefError('expression ' + k)

    def agg_eq(self, a, b):
        if a[0] == 'i':
            if (a[1], a[2]) != (b[1], b[2]):
                raise RefError('member types differ')
            return a[3] == b[3]
        if a[0] == 'b':
            return a[1] == b[1]
        if a[0] == 's':
            if a[1] != b[1]:
                raise RefError('struct types differ')
            return z3.And(*[self.agg_eq(a[2][k], b[2][k]) for k in a[2]])
        if a[0] == 'a':
            if len(a[1]) != len(b[1]):
                raise RefError('array lengths differ')
            return z3.And(*[self.agg_eq(x, y) for x, y in zip(a[1], b[1])])
        if a[0] == 'o':
            return z3.And(a[1] == b[1], z3.Implies(a[1], self.agg_eq(a[2], b[2])))
        raise RefError('equality of ' + a[0])

    def binop(self, op, a, b):
        if a[0] == 'b' and b[0] == 'b':
            r = {'and': z3.And(a[1], b[1]), 'or': z3.Or(a[1], b[1]), 'eq': a[1] == b[1], 'ne': a[1] != b[1]}.get(op)
            if r is None:
                raise RefError('bool op ' + op)
            return ('b', z3.simplify(r))
        if op in ('eq', 'ne') and a[0] in ('s', 'a', 'o') and a[0] == b[0]:
            # README "Equality Comparison: all types other than pointers, slices and any": aggregates are equal when all
            # their members are; optionals when both are nil or both hold equal payloads
            r = self.agg_eq(a, b)
            return ('b', z3.simplify(r if op == 'eq' else z3.Not(r)))
        if a[0] != 'i' or b[0] != 'i':
            raise RefError('operands of ' + op)
        # the common type: the wider one; an unsigned operand fits a strictly wider signed one
        if (a[1], a[2]) != (b[1], b[2]):
            if a[1] >= b[1]:
                b = self.int_to(b, a[1], a[2])
            else:
                a = self.int_to(a, b[1], b[2])
        bits, signed = a[1], a[2]
        x, y = a[3], b[3]
        if op in ('div', 'rem'):
            # division by zero and MIN / -1 are outside the defined semantics: generators never produce them
            bad = y == 0
            if signed:
                bad = z3.Or(bad, z3.And(x == BV(1 << (bits - 1), bits), y == BV(-1, bits)))
            if self.decide(bad):
                raise RefError('division outside the defined semantics')
        if op in ('shl', 'shr'):
            if self.decide(z3.UGE(y, bits)):
                raise RefError('shift amount outside the defined semantics')
        if op in ('lt', 'le', 'gt', 'ge', 'eq', 'ne'):
            r = {'lt': (x < y) if signed else z3.ULT(x, y), 'le': (x <= y) if signed else z3.ULE(x, y),
                 'gt': (x > y) if signed else z3.UGT(x, y), 'ge': (x >= y) if signed else z3.UGE(x, y), 'eq': x == y, 'ne': x != y}[op]
            return ('b', z3.simplify(r))
        r = {'add': lambda: x + y, 'sub': lambda: x - y, 'mul': lambda: x * y, 'and': lambda: x & y, 'or': lambda: x | y, 'xor': lambda: x ^ y,
             'div': lambda: (x / y) if signed else z3.UDiv(x, y), 'rem': lambda: z3.SRem(x, y) if signed else z3.URem(x, y),
             'shl': lambda: x << y, 'shr': lambda: (x >> y) if signed else z3.LShR(x, y)}[op]()
        return ival(bits, signed, r)
