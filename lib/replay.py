"""Replay files: self-contained JSON describing one counterexample and how to reproduce it natively."""
import json
import os
import subprocess
import tempfile

from . import common


def make_native_replay(prop, name, source, expected_stdout, expected_rc, observed_stdout, observed_rc, what, key, extra=None):
    payload = {'property': prop, 'kind': 'native-program', 'what': what, 'key': key,
               'source': source, 'expected_stdout': expected_stdout, 'expected_rc': expected_rc,
               'observed_stdout': observed_stdout, 'observed_rc': observed_rc,
               'how': 'capy build <source> --mod-dir /repo; run out/<name>; compare stdout and exit status with expected_*'}
    if extra:
        payload.update(extra)
    return common.write_replay(prop, name, payload)


def make_compile_replay(prop, name, source, compiler_output, what, key):
    payload = {'property': prop, 'kind': 'compile', 'what': what, 'key': key, 'source': source,
               'compiler_output': compiler_output[-4000:],
               'how': 'capy build <source> --mod-dir /repo --no-exec must succeed for this well-typed program'}
    return common.write_replay(prop, name, payload)


def run_replay(path):
    """returns 1 when the recorded violation still reproduces on the current tree, 0 when it does not, 2 on trouble"""
    payload = json.load(open(path))
    common.build_capy()
    wd = tempfile.mkdtemp(prefix='replay_', dir=common.workdir(payload['property']))
    src = os.path.join(wd, 'replay.capy')
    with open(src, 'w') as fh:
        fh.write(payload['source'])
    kind = payload['kind']
    if kind == 'compile':
        rc, out = common.capy_dump('replay.capy', wd)
        bad = rc != 0 or common.compiler_rejected(out) or 'panicked at' in out
        print('compiler exit=%s rejected/crashed=%s' % (rc, bad))
        print(out[-1500:])
        print('REPRODUCED' if bad else 'NOT REPRODUCED')
        return 1 if bad else 0
    if kind == 'native-program':
        res = common.capy_native('replay.capy', wd)
        if res['rc'] is None:
            print('the replay program did not build:\n' + res['build_out'][-2000:])
            return 2
        print('expected stdout=%r rc=%r' % (payload['expected_stdout'], payload['expected_rc']))
        print('observed stdout=%r rc=%r' % (res['stdout'], res['rc']))
        if payload['expected_stdout'] is None and payload['expected_rc'] is None:
            # no closed-form expectation was recorded: the violation is the recorded observation itself
            differs = res['stdout'] == payload['observed_stdout'] and res['rc'] == payload['observed_rc']
            print('violated goals recorded: %s' % payload.get('violated_goals'))
        else:
            differs = (payload['expected_stdout'] is not None and res['stdout'] != payload['expected_stdout']) or \
                      (payload['expected_rc'] is not None and res['rc'] != payload['expected_rc'])
        print('REPRODUCED' if differs else 'NOT REPRODUCED')
        return 1 if differs else 0
    if kind == 'harness-call':
        from . import llcheck
        return llcheck.run_harness_replay(payload)
    print('unknown replay kind ' + kind)
    return 2
