"""Shared driver for Engine-A checks whose input is a text of symbolic bytes (C22 lexer, C23 lexer+parser, C09 literals)."""
import random
import z3

from . import llcheck
from .llcheck import BUF, Job, explore, model_of, eval_inputs
from engine.llsym import State, is_sym

# 24 symbols covering every token-starting character class of tokenizer.txt
ALPHABET24 = b'ae0_"\'\\/.=<-+&|!({[^ \n#:'
# reduced alphabet for the parser (DESIGN.md C23)
ALPHABET_PARSE = b'a1"\'\\/.:;=(){}[],^- \n'
MULTIBYTE = [b'\xc2\xa0', b'\xc3\xa9', b'\xe2\x82\xac', b'\xf0\x9f\x98\x80']


def in_alphabet(b, alphabet):
    if alphabet is None:
        return z3.ULT(b, 128)
    return z3.Or(*[b == c for c in sorted(set(alphabet))])


class Part:
    """one partition of the input space: a layout of symbolic ASCII positions and fixed multi-byte characters,
    with the first symbolic byte restricted to `first` (a list of byte values) when given"""

    def __init__(self, layout, alphabet, first=None, extra=()):
        self.layout = layout      # list of None (symbolic byte) | bytes (fixed sequence)
        self.alphabet = alphabet; self.first = first; self.extra = tuple(extra)

    def __repr__(self):
        return 'Part(%s, first=%s)' % (['?' if x is None else x for x in self.layout], self.first and (self.first[0], self.first[-1]))


WORDS = [b'a', b'1', b'if', b'else', b'.', b'[', b'(', b'{', b'+', b'=', b'try', b')', b'::', b';']
WORD_WIDTH = 4


# second token-level family: a CONTEXT (a construct that hands its recovery set down to what it encloses) followed by k
# slots holding a word or a short phrase; the phrases open the constructs whose item loops run until a closing bracket
CONTEXTS = [b'x :: if ', b'x :: (a: ', b'x :: a(', b'x :: a[', b'x : ', b'x :: while ', b'x :: a.{ b = ', b'x :: a.[', b'x :: switch a { b => ', b'x :: { ']
PHRASES = [b'a', b'1', b'else', b'(', b')', b'{', b'}', b']', b'=', b';', b',', b'=>', b':', b'...', b'switch a {', b'a(', b'a.[', b'a.{ b =', b'a.(', b'(a:']
PHRASE_WIDTH = 10


def context_parts(k, contexts=CONTEXTS):
    parts = []
    for c in contexts:
        parts += word_parts(k, words=PHRASES, prefix=c, width=PHRASE_WIDTH)
    return parts


def word_parts(k, words=WORDS, prefix=b'', extra=(), width=WORD_WIDTH):
    """token-level inputs: `prefix` followed by k slots of `width` bytes, each holding one dictionary word padded with
    spaces (so tokens are separated by whitespace); the first slot's word is fixed per partition, the others symbolic"""
    parts = []
    for w in words:
        layout = ([prefix] if prefix else []) + [w.ljust(width)] + [None] * (width * (k - 1))
        p = Part(layout, None, extra=extra)
        base = len(prefix) + width
        p.slots = [(base + width * j, width, [x.ljust(width) for x in words]) for j in range(k - 1)]
        parts.append(p)
    return parts


def build_for(extra_args):
    def build(part):
        st = State()
        bs = []; pos = 0; first_done = False
        for item in part.layout:
            if item is None:
                b = z3.BitVec('b%d' % pos, 8)
                st.mem[BUF + pos] = b
                st.pc.append(in_alphabet(b, part.alphabet))
                if part.first is not None and not first_done:
                    st.pc.append(z3.Or(*[b == c for c in part.first])); first_done = True
                bs.append(b); pos += 1
            else:
                for c in item:
                    st.mem[BUF + pos] = c; bs.append(c); pos += 1
        for (start, width, words) in getattr(part, 'slots', []):
            st.pc.append(z3.Or(*[z3.And(*[bs[start + i] == w[i] for i in range(width)]) for w in words]))
        return st, [BUF, pos] + list(extra_args) + list(part.extra), {'text': bs}
    return build


def judge_zero(ex, p, inputs):
    """the harness returns 0 when the property held on the input; anything else (or a panic) is a counterexample"""
    kind = p.end[0]
    if kind == 'ret':
        r = p.end[1]
        if not is_sym(r):
            if r == 0:
                return None
            m = model_of(ex, p)
            return {'what': 'harness returned %d' % r, 'code': r, 'inputs': eval_inputs(m, inputs)} if m is not None else None
        m = model_of(ex, p, [r != 0])
        if m is None:
            return None
        return {'what': 'harness returned %d' % m.eval(r, model_completion=True).as_long(), 'code': m.eval(r, model_completion=True).as_long(),
                'inputs': eval_inputs(m, inputs)}
    m = model_of(ex, p)
    if m is None:
        return None
    return {'what': '%s: %s' % (kind, str(p.end[1])[:160]), 'code': kind, 'inputs': eval_inputs(m, inputs)}


def ascii_parts(n, alphabet=None, chunks=16, extra=()):
    """all strings of exactly n symbolic bytes over the alphabet, split on the first byte"""
    if n == 0:
        return [Part([], alphabet, extra=extra)]
    vals = sorted(set(alphabet)) if alphabet is not None else list(range(128))
    k = max(1, (len(vals) + chunks - 1) // chunks)
    return [Part([None] * n, alphabet, first=vals[i:i + k], extra=extra) for i in range(0, len(vals), k)]


def unicode_parts(max_scalars, alphabet=None, extra=()):
    """strings of up to max_scalars scalar values, each ASCII (symbolic) or one of the fixed multi-byte characters,
    with at least one multi-byte character"""
    parts = []
    choices = [None] + MULTIBYTE

    def rec(prefix, k):
        if k == 0:
            if any(x is not None for x in prefix):
                parts.append(Part(list(prefix), alphabet, extra=extra))
            return
        for c in choices:
            rec(prefix + [c], k - 1)
    for n in range(1, max_scalars + 1):
        rec([], n)
    return parts


def concrete_state(text, extra_args=()):
    st = State()
    for i, b in enumerate(text):
        st.mem[BUF + i] = b
    return st, [BUF, len(text)] + list(extra_args)


def random_texts(rnd, count, maxlen, alphabet=None):
    pool = list(alphabet) if alphabet is not None else list(range(32, 127)) + [9, 10, 13]
    out = []
    for _ in range(count):
        n = rnd.randint(0, maxlen)
        out.append(bytes(rnd.choice(pool) for _ in range(n)))
    return out
