"""C12/C13 driver: laws of Ty::can_fit_into / can_cast_to / is_weak_replaceable_by / max on types built from symbolic bytes."""
import itertools
import random
import z3

from . import common, llcheck
from .llcheck import BUF, Job, explore, model_of, eval_inputs
from engine.llsym import State, is_sym

ENTRY = '@harness_laws'
DESC = 7
CONS = ['', 'ptr', 'slice', 'array', 'anon-array', 'distinct', 'optional', 'error-union', 'struct', 'anon-struct', 'fn-ptr']
LEAVES = ['int', 'uint', 'float', 'bool', 'str', 'char', 'type', 'any', 'rawptr', 'rawslice', 'void', 'nil', 'always-jumps', 'unknown']
LAW_NAMES = {1: 'A fits A', 2: 'fit => cast', 4: 'weak-replaceable => fit', 8: 'max is symmetric', 16: 'max accepts both operands',
             32: 'nominal types do not fit other nominal types / their underlying type', 64: 'distinct <-> underlying casts are accepted',
             128: 'no binary operator accepts a nominal operand with another nominal type / its strongly typed underlying type'}


MAX_CAUSE = {1: 'max returns the distinct operand although the other (not weak-numeric) operand does not fit into it', 6: 'max returns the distinct operand although the weak numeric operand does not fit into it', 2: 'a zero-sized operand and `type` give `type`',
             3: 'optional whose payload max does not accept both', 4: 'error union whose payload max does not accept both', 5: 'other'}
SYM_CAUSE = {1: 'always-jumps vs unknown', 2: 'other'}


def cons_chain(d):
    return ' '.join(CONS[c] for c in (d[0], d[1]) if c) or 'leaf'


def skeleton(d):
    c2, c1, k, w, m, n, uid = d
    leaf = LEAVES[k] if k < len(LEAVES) else '?'
    if k in (0, 1, 2):
        leaf += {0: '(weak)', 255: '(ptr-sized)'}.get(w, '(sized)')
    parts = [CONS[c] for c in (c2, c1) if c]
    return ' '.join(parts + [leaf])


def make_build(widths):
    def build(part):
        ca, cb, depth_a = part[:3]
        depth_b = part[3] if len(part) > 3 else 1
        inner = part[4] if len(part) > 4 else None        # the inner constructor of the deep side(s), fixed
        inner_b = part[5] if len(part) > 5 else inner       # (a different one for the B side, when given)
        st = State()
        bs = [z3.BitVec('t%d' % i, 8) for i in range(2 * DESC)]
        for i, b in enumerate(bs):
            st.mem[BUF + i] = b
        for o, c, deep in ((0, ca, depth_a == 2), (DESC, cb, depth_b == 2)):
            st.pc.append(bs[o] == c)
            if not deep:
                st.pc.append(bs[o + 1] == 0)
            elif inner is not None:
                st.pc.append(bs[o + 1] == (inner if o == 0 else inner_b))
            else:
                st.pc.append(z3.ULT(bs[o + 1], len(CONS)))
            st.pc.append(z3.ULT(bs[o + 2], len(LEAVES)))
            st.pc.append(z3.Or(*[bs[o + 3] == x for x in widths]))
            st.pc.append(z3.ULE(bs[o + 4], 1)); st.pc.append(z3.ULT(bs[o + 5], 3))
            # uids: 0/1 and 10/11 (a nested nominal type gets its parent's uid + 10, so 10/11 let a root type BE the
            # nested type of the other description: `Seconds` against `distinct Seconds`)
            st.pc.append(z3.Or(*[bs[o + 6] == u for u in ((0, 1, 10, 11) if (depth_a == 2 or depth_b == 2) else (0, 1))]))
        return st, [BUF], {'desc': bs}
    return build


def make_judge(mask):
    def judge(ex, p, inputs):
        kind = p.end[0]
        if kind != 'ret':
            m = model_of(ex, p)
            return {'what': '%s: %s' % (kind, str(p.end[1])[:160]), 'bits': -1, 'inputs': eval_inputs(m, inputs)} if m is not None else None
        r = p.end[1]
        rr = r if is_sym(r) else z3.BitVecVal(r, 32)
        m = model_of(ex, p, [(rr & z3.BitVecVal(mask, 32)) != 0, (rr & z3.BitVecVal(0x80000000, 32)) == 0])
        if m is None:
            return None
        full = m.eval(rr, model_completion=True).as_long()
        bits = full & mask
        return {'what': 'law bits %#x' % bits, 'bits': bits, 'full': full, 'inputs': eval_inputs(m, inputs)}
    return judge


def run_laws(chk, prop, mask, tier, seed, parts=None):
    ll, so = llcheck.build_harness('llharness')
    mod = llcheck.load_module(ll)
    rnd = random.Random(seed)

    def concrete(desc):
        st = State()
        for i, b in enumerate(desc):
            st.mem[BUF + i] = b
        return st, [BUF]
    cases = []
    for _ in range(24):
        d = []
        for _ in range(2):
            c2 = rnd.randrange(len(CONS)); c1 = rnd.randrange(len(CONS)) if c2 and rnd.random() < 0.4 else 0
            d += [c2, c1, rnd.randrange(len(LEAVES)), rnd.choice([0, 8, 32, 64, 255]), rnd.randrange(2), rnd.randrange(3), rnd.randrange(2)]
        cases.append(d)
    llcheck.selftest(chk, mod, so, ENTRY, concrete, lambda d: [('bytes', list(d))], cases, ret='c_uint32', ret_bits=32)
    thorough = tier == 'thorough'
    widths = (0, 8, 16, 32, 64, 128, 255) if thorough else (0, 32, 64, 255)
    allpairs = list(itertools.product(range(len(CONS)), repeat=2))
    if parts is None:
        if thorough:
            # every constructor pair at depth <= 1, plus depth 2 on the A side for a FIXED list of pairs
            deep = [(5, 0), (5, 5), (6, 6), (7, 7), (1, 1), (3, 4), (8, 9), (5, 6)]
            parts = [(a, b, 1) for a, b in allpairs] + [(a, b, 2) for a, b in deep if a != 0]
            parts += [(w, w, 2, 2, ia, ib) for w in (1, 2, 6, 7) for ia, ib in ((4, 3), (9, 8), (3, 3), (4, 4), (6, 6))]
        else:
            # a seeded sample of the constructor pairs (the leaf x leaf pair always included)
            sample = [(0, 0)] + rnd.sample([p for p in allpairs if p != (0, 0)], 35)
            parts = [(a, b, 1) for a, b in sample]
            # both sides two constructors deep, for the pairs where the inner one decides: a pointer / optional / slice of
            # an anonymous array or struct against the same wrapper of the concrete one
            parts += [(1, 1, 2, 2, 4, 3), (1, 1, 2, 2, 9, 8), (6, 6, 2, 2, 4, 3), (2, 2, 2, 2, 4, 3)]
    else:
        parts = [tuple(p) if len(p) > 2 else (p[0], p[1], 1) for p in parts]
    job = Job(ENTRY, make_build(widths), make_judge(mask), max_steps=3_000_000)
    tot = explore(chk, mod, job, parts, nproc=16)
    seen = set()
    for v in tot['violations']:
        desc = v['inputs']['desc']
        args = [('bytes', list(desc))]
        r = llcheck.native_call(so, ENTRY, args, ret='c_uint32')
        a, b = skeleton(desc[:DESC]), skeleton(desc[DESC:])
        if r[0] == 'ret' and (r[1] & 0x80000000 or not (r[1] & mask)):
            chk.inconclusive_note('model did not reproduce natively: %s vs %s -> %r' % (a, b, r)); continue
        bits = (r[1] & mask) if r[0] == 'ret' else -1
        for bit, name in LAW_NAMES.items():
            if bits != -1 and not (bits & bit):
                continue
            key = {'kind': 'ty-law', 'law': name if bits != -1 else 'no panic'}
            if bits != -1 and bit == 16:
                key['cause'] = MAX_CAUSE.get((r[1] >> 8) & 15, 'other')
            if bits != -1 and bit == 32:
                key['cause'] = {1: 'the expected type is a distinct wrapper of any'}.get((r[1] >> 16) & 15, 'other')
            if bits != -1 and bit == 8:
                key['cause'] = SYM_CAUSE.get((r[1] >> 12) & 15, 'other')
            if bits != -1 and bit == 128:
                key['cause'] = {1: 'a distinct with its own strongly typed non-integer underlying type'}.get((r[1] >> 20) & 15, 'other')
            kk = (key['law'], a, b)
            if kk in seen:
                continue
            seen.add(kk)
            what = 'law "%s" fails for A = %s, B = %s (descriptor bytes %s; native result %r)' % (key['law'], a, b, desc, r)
            path = llcheck.make_harness_replay(prop, 'law_%d' % len(seen), 'llharness', ENTRY, args, what, key, ret='c_uint32',
                                               extra={'law_mask': mask, 'how': 'harness_laws returns a bit per broken law (see llharness/src/ty_laws.rs); reproduced when (result & law_mask) != 0'})
            chk.report(key, what, path)
            if bits == -1:
                break
    chk.cov['exhaustive'] = True
    chk.cov['explanation'] = 'states = finished paths of harness_laws over two symbolic type descriptions; the executor\'s forks enumerate the type skeletons, widths/mutability/sizes/uids stay symbolic'
    chk.bounds.update({'constructor_depth': '<= 1 for every pair; 2 on the A side for a fixed list of 8 pairs' if thorough else '<= 1 (seeded sample of 36 of the 121 constructor pairs; thorough covers all)', 'constructors': CONS[1:], 'leaves': LEAVES, 'widths': list(widths), 'constructor_pairs': len(parts),
                       'array_sizes': '< 3', 'uids': '0, 1 (and 10, 11 where one side has depth 2: the nested type of one side can be the root of the other)', 'outside_claim': ['enum/variant types here (separate harness_variants)', 'File and function-definition types', 'deeper nesting']})
    chk.assumptions.extend(['internment::Intern is replaced by a leaked-box model compared by content (shims/internment): Intern::new(a) == Intern::new(b) <=> a == b',
                            'validity precondition in llharness/src/ty_laws.rs build(): nil/always-jumps/unknown only stand alone, void only alone or as optional/error-union payload, a uid identifies one type',
                            'rustc 1.88 LLVM IR at opt-level 1; llsym validated against native runs'])
    return tot
