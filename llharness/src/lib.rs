use hir::common::Ty;
use internment::Intern;
use std::slice;

fn mk(k: u8, w: u8) -> Ty { match k { 0 => Ty::IInt(w), 1 => Ty::UInt(w), 2 => Ty::Float(w), 3 => Ty::Bool, _ => Ty::Nil } }
#[no_mangle]
pub extern "C" fn harness_fit(k1: u8, w1: u8, k2: u8, w2: u8) -> u32 {
    let a = mk(k1, w1); let b = mk(k2, w2);
    (a.can_fit_into(&b) as u32) | ((a.can_cast_to(&b) as u32) << 1) | ((a.is_weak_replaceable_by(&b) as u32) << 2)
}

// depth-1 types built from symbolic bytes with the REAL internment
fn leaf(k: u8, w: u8, m: bool) -> Ty {
    match k {
        0 => Ty::IInt(w), 1 => Ty::UInt(w), 2 => Ty::Float(w), 3 => Ty::Bool, 4 => Ty::String, 5 => Ty::Char, 6 => Ty::Type,
        7 => Ty::Any, 8 => Ty::RawPtr { mutable: m }, 9 => Ty::RawSlice, 10 => Ty::Nil, 11 => Ty::Void, _ => Ty::AlwaysJumps,
    }
}
fn wrap(c: u8, inner: Ty, m: bool, n: u64, uid: u32) -> Ty {
    match c {
        0 => inner,
        1 => Ty::Pointer { mutable: m, sub_ty: Intern::new(inner) },
        2 => Ty::Slice { sub_ty: Intern::new(inner) },
        3 => Ty::ConcreteArray { size: n, sub_ty: Intern::new(inner) },
        4 => Ty::AnonArray { size: n, sub_ty: Intern::new(inner) },
        5 => Ty::Distinct { uid, sub_ty: Intern::new(inner) },
        _ => Ty::Optional { sub_ty: Intern::new(inner) },
    }
}
/// p points at 2 x [c, k, w, m, n, uid] bytes
#[no_mangle]
pub extern "C" fn harness_laws(p: *const u8) -> u32 {
    let b = unsafe { slice::from_raw_parts(p, 12) };
    let a = wrap(b[0], leaf(b[1], b[2], b[3] != 0), b[3] != 0, b[4] as u64, b[5] as u32);
    let c = wrap(b[6], leaf(b[7], b[8], b[9] != 0), b[9] != 0, b[10] as u64, b[11] as u32);
    let fit = a.can_fit_into(&c); let cast = a.can_cast_to(&c); let weak = a.is_weak_replaceable_by(&c);
    let m1 = a.max(&c); let m2 = c.max(&a);
    let mut r = (fit as u32) | ((cast as u32) << 1) | ((weak as u32) << 2);
    if m1 != m2 { r |= 8; }
    if let Some(m) = &m1 { if !(a.can_fit_into(m) && c.can_fit_into(m)) { r |= 16; } }
    if !a.can_fit_into(&a) { r |= 32; }
    r
}

#[no_mangle]
pub extern "C" fn harness_linecol(p: *const u8, len: usize, off: u32) -> u64 {
    let s = unsafe { std::str::from_utf8_unchecked(slice::from_raw_parts(p, len)) };
    let li = line_index::LineIndex::new(s);
    let (l, c) = li.line_col(off.into());
    ((l.0 as u64) << 32) | c.0 as u64
}

#[no_mangle]
pub extern "C" fn harness_lex(p: *const u8, len: usize) -> u32 {
    let s = unsafe { std::str::from_utf8_unchecked(slice::from_raw_parts(p, len)) };
    let toks = lexer::lex(s);
    let n = toks.len();
    let mut prev: u32 = 0;
    for i in 0..n {
        let r = toks.range(i);
        if u32::from(r.start()) != prev { return 3; }
        if r.end() < r.start() { return 4; }
        if !s.is_char_boundary(u32::from(r.start()) as usize) { return 5; }
        prev = r.end().into();
    }
    if prev as usize != len { return 6; }
    0
}

#[no_mangle]
pub extern "C" fn harness_parse(kinds: *const u8, n: usize, text: *const u8, len: usize) -> u32 {
    let s = unsafe { std::str::from_utf8_unchecked(slice::from_raw_parts(text, len)) };
    let ks = unsafe { slice::from_raw_parts(kinds, n) };
    let kinds: Vec<syntax::TokenKind> = ks.iter().map(|k| unsafe { std::mem::transmute::<u8, syntax::TokenKind>(*k) }).collect();
    // one byte per token
    let starts: Vec<text_size::TextSize> = (0..=n as u32).map(Into::into).collect();
    let toks = token::Tokens::new(kinds, starts);
    let parse = parser::parse_source_file(&toks, s);
    let tree = parse.syntax_tree();
    let root = tree.root();
    let r = root.range(tree);
    if u32::from(r.start()) != 0 || u32::from(r.end()) as usize != len { return 1; }
    (parse.errors().len() as u32) << 8
}

#[no_mangle]
pub extern "C" fn harness_topo(dec: *const u8) -> u32 {
    // items 0..3 ; 3 rounds; decisions from dec bytes
    let d = unsafe { slice::from_raw_parts(dec, 32) };
    let mut t: topo::TopoSort<u8> = topo::TopoSort::new();
    t.extend([0u8, 1, 2]);
    let mut pending = [true, true, true];
    let mut dep = [[false; 3]; 3];
    let mut di = 0;
    for _round in 0..2 {
        if t.is_empty() { break; }
        let expect_ready: Vec<u8> = (0..3u8).filter(|&i| pending[i as usize] && !(0..3).any(|c| dep[i as usize][c] && pending[c])).collect();
        let leaves: Vec<u8> = match t.peek_all() {
            Ok(l) => { let mut v: Vec<u8> = l.into_iter().cloned().collect(); v.sort(); if v != expect_ready { return 1; } v }
            Err(_) => { if !expect_ready.is_empty() { return 2; } let mut v: Vec<u8> = t.peek_all_cyclic().unwrap().into_iter().cloned().collect(); v.sort();
                        let all: Vec<u8> = (0..3u8).filter(|&i| pending[i as usize]).collect(); if v != all { return 3; } v }
        };
        if leaves.is_empty() { return 4; }
        for item in leaves {
            let choice = d[di]; di += 1;
            if choice & 1 == 0 {
                t.remove(&item); pending[item as usize] = false;
            } else {
                let mask = (choice >> 1) & 7;
                let deps: Vec<u8> = (0..3u8).filter(|&c| c != item && pending[c as usize] && (mask >> c) & 1 == 1).collect();
                for &c in &deps { dep[item as usize][c as usize] = true; }
                t.insert_deps(item, deps);
            }
        }
    }
    let any_pending = pending.iter().any(|p| *p);
    if t.is_empty() == any_pending { return 5; }
    0
}

#[no_mangle]
pub extern "C" fn harness_lexparse(p: *const u8, len: usize) -> u32 {
    let s = unsafe { std::str::from_utf8_unchecked(slice::from_raw_parts(p, len)) };
    let toks = lexer::lex(s);
    let parse = parser::parse_source_file(&toks, s);
    let tree = parse.syntax_tree();
    let root = tree.root();
    let r = root.range(tree);
    if u32::from(r.start()) != 0 || u32::from(r.end()) as usize != len { return 1; }
    if root.text(tree) != s { return 2; }
    for e in parse.errors() {
        let end = match e.kind {
            parser::SyntaxErrorKind::Missing { offset } => u32::from(offset),
            parser::SyntaxErrorKind::UnexpectedToken { range, .. } => u32::from(range.end()),
            parser::SyntaxErrorKind::UnexpectedNode { range, .. } => u32::from(range.end()),
        };
        if end as usize > len { return 3; }
    }
    0
}

/// tokens: x : : a OP1 b OP2 c ;   (one byte each, text "x::a+b*c;"), ops given as TokenKind bytes
/// returns 0 if the BinaryExpr nesting is left ((a op1 b) op2 c), 1 if right (a op1 (b op2 c)), >=16 on anomalies
#[no_mangle]
pub extern "C" fn harness_prec(op1: u8, op2: u8) -> u32 {
    use syntax::{TokenKind as T, NodeKind};
    let k = |b: u8| unsafe { std::mem::transmute::<u8, T>(b) };
    let kinds = vec![T::Ident, T::Colon, T::Colon, T::Ident, k(op1), T::Ident, k(op2), T::Ident, T::Semicolon];
    let text = "x::a+b*c;";
    let starts: Vec<text_size::TextSize> = (0..=9u32).map(Into::into).collect();
    let toks = token::Tokens::new(kinds, starts);
    let parse = parser::parse_source_file(&toks, text);
    if !parse.errors().is_empty() { return 16; }
    let tree = parse.syntax_tree();
    let mut ranges: Vec<(u32, u32)> = Vec::new();
    for n in tree.root().descendant_nodes(tree) {
        if n.kind(tree) == NodeKind::BinaryExpr { let r = n.range(tree); ranges.push((r.start().into(), r.end().into())); }
    }
    ranges.sort();
    if ranges.len() != 2 { return 17; }
    // outer is 3..8 ; inner is 3..6 (left nested) or 5..8 (right nested)
    if ranges.contains(&(3, 8)) && ranges.contains(&(3, 6)) { return 0; }
    if ranges.contains(&(3, 8)) && ranges.contains(&(5, 8)) { return 1; }
    18
}

/// variants of one enum / two enums: max + fit laws through ENUM_MAP (thread local)
#[no_mangle]
pub extern "C" fn harness_variants(sel: u8, w: u8) -> u32 {
    use hir::common::{set_enum_uid, Name};
    let mut it = interner::Interner::default();
    let va: Intern<Ty> = Ty::EnumVariant { enum_uid: 1, variant_name: Name(it.intern("A")), uid: 10, sub_ty: Ty::IInt(w).into(), discriminant: 0 }.into();
    let vb: Intern<Ty> = Ty::EnumVariant { enum_uid: 1, variant_name: Name(it.intern("B")), uid: 11, sub_ty: Ty::Void.into(), discriminant: 1 }.into();
    let e1: Intern<Ty> = Ty::Enum { uid: 1, variants: vec![va, vb] }.into();
    let vc: Intern<Ty> = Ty::EnumVariant { enum_uid: 2, variant_name: Name(it.intern("A")), uid: 12, sub_ty: Ty::IInt(w).into(), discriminant: 0 }.into();
    let e2: Intern<Ty> = Ty::Enum { uid: 2, variants: vec![vc] }.into();
    set_enum_uid(1, e1); set_enum_uid(2, e2);
    let cands: [Intern<Ty>; 5] = [va, vb, vc, e1, e2];
    let a = cands[(sel % 5) as usize]; let b = cands[((sel / 5) % 5) as usize];
    let mut r = 0;
    let m1 = a.max(&b); let m2 = b.max(&a);
    if m1 != m2 { r |= 1; }
    if let Some(m) = &m1 { if !(a.can_fit_into(m) && b.can_fit_into(m)) { r |= 2; } }
    // nominality: a variant never fits a different enum or a different variant
    if a.can_fit_into(&b) && *a != *b {
        let ok = matches!((&*a, &*b), (Ty::EnumVariant { enum_uid, .. }, Ty::Enum { uid, .. }) if enum_uid == uid);
        if !ok { r |= 4; }
    }
    r
}
