//! Entry points for Engine A (llsym): each `extern "C"` function calls the real code of /repo's crates and checks a
//! property in ordinary Rust; 0 means "held on this input". The crate is compiled to LLVM IR and executed
//! symbolically; the same build is loaded as a shared library for native replay.
#![allow(clippy::missing_safety_doc)]

use std::slice;

mod tokens_table; // generated from /repo/tokenizer.txt by lib/llcheck.py before every build

pub mod ty_laws;

unsafe fn text<'a>(p: *const u8, len: usize) -> &'a str {
    std::str::from_utf8_unchecked(slice::from_raw_parts(p, len))
}

// ------------------------------------------------------------------------------------------------ C25

#[no_mangle]
pub unsafe extern "C" fn harness_linecol(p: *const u8, len: usize, off: u32) -> u64 {
    let s = text(p, len);
    let li = line_index::LineIndex::new(s);
    let (l, c) = li.line_col(off.into());
    ((l.0 as u64) << 32) | c.0 as u64
}

// ------------------------------------------------------------------------------------------------ C22

fn is_digit(b: u8) -> bool { b.is_ascii_digit() }
fn is_ident_start(b: u8) -> bool { b.is_ascii_alphabetic() || b == b'_' }
fn is_ident_cont(b: u8) -> bool { b.is_ascii_alphanumeric() || b == b'_' }

/// `(\d[\d_]*)+` starting at i; returns the index after it (or i when it does not match)
fn digits_run(t: &[u8], mut i: usize) -> usize {
    if i >= t.len() || !is_digit(t[i]) { return i; }
    while i < t.len() && (is_digit(t[i]) || t[i] == b'_') { i += 1; }
    i
}

/// Int = /(\d[\d_]*)+([eE](\d[\d_]*)+)?/
fn matches_int(t: &[u8]) -> bool {
    let i = digits_run(t, 0);
    if i == 0 { return false; }
    if i == t.len() { return true; }
    if t[i] != b'e' && t[i] != b'E' { return false; }
    let j = digits_run(t, i + 1);
    j > i + 1 && j == t.len()
}

/// Float = /(\d[\d_]*)?\.(\d[\d_]*)+([eE][-+]?(\d[\d_]*)+)?/
fn matches_float(t: &[u8]) -> bool {
    let mut i = digits_run(t, 0);
    if i >= t.len() || t[i] != b'.' { return false; }
    i += 1;
    let j = digits_run(t, i);
    if j == i { return false; }
    if j == t.len() { return true; }
    if t[j] != b'e' && t[j] != b'E' { return false; }
    let mut k = j + 1;
    if k < t.len() && (t[k] == b'-' || t[k] == b'+') { k += 1; }
    let l = digits_run(t, k);
    l > k && l == t.len()
}

fn matches_hex(t: &[u8]) -> bool {
    t.len() > 2 && t[0] == b'0' && t[1] == b'x' && t[2..].iter().all(|b| b.is_ascii_hexdigit())
}

fn matches_bin(t: &[u8]) -> bool {
    t.len() > 2 && t[0] == b'0' && t[1] == b'b' && t[2..].iter().all(|b| *b == b'0' || *b == b'1')
}

fn matches_ident(t: &[u8]) -> bool {
    !t.is_empty() && is_ident_start(t[0]) && t[1..].iter().all(|b| is_ident_cont(*b))
}

/// kind/text agreement for one token; 0 = agrees
fn kind_agrees(kind: syntax::TokenKind, t: &str) -> u32 {
    use syntax::TokenKind as T;
    let b = t.as_bytes();
    if let Some(fixed) = tokens_table::fixed_text(kind) {
        return if t == fixed { 0 } else { 21 };
    }
    match kind {
        T::Whitespace => if !b.is_empty() && b.iter().all(|c| matches!(*c, b' ' | b'\t' | b'\r' | b'\n')) { 0 } else { 22 },
        T::NonBreakingSpace => if t == "\u{a0}" { 0 } else { 23 },
        T::Ident => {
            if !matches_ident(b) { return 24; }
            // a keyword or boolean spelled exactly must not come out as an identifier
            if tokens_table::is_fixed_spelling(t) || t == "true" || t == "false" { return 25; }
            0
        }
        T::Int => if matches_int(b) { 0 } else { 26 },
        T::Float => if matches_float(b) { 0 } else { 27 },
        T::Hex => if matches_hex(b) { 0 } else { 28 },
        T::Bin => if matches_bin(b) { 0 } else { 29 },
        T::Bool => if t == "true" || t == "false" { 0 } else { 30 },
        T::SingleQuote => if t == "'" { 0 } else { 31 },
        T::DoubleQuote => if t == "\"" { 0 } else { 32 },
        T::Escape => {
            // a backslash and the character it escapes (or a lone backslash at the very end)
            if b.is_empty() || b[0] != b'\\' { return 33; }
            if t.chars().count() > 2 { return 34; }
            0
        }
        T::StringContents => if b.iter().any(|c| *c == b'\\' || *c == b'\n') { 35 } else { 0 },
        T::CommentLeader => if t == "//" { 0 } else { 36 },
        T::CommentContents => if b.contains(&b'\n') { 37 } else { 0 },
        T::Error => 0,
        _ => 38, // a kind with neither a fixed spelling nor a rule here: the table is out of date
    }
}

/// lexing is total and lossless, and every token's kind agrees with its text
#[no_mangle]
pub unsafe extern "C" fn harness_lex(p: *const u8, len: usize) -> u32 {
    let s = text(p, len);
    let toks = lexer::lex(s);
    let n = toks.len();
    let mut prev: u32 = 0;
    for i in 0..n {
        let r = toks.range(i);
        if u32::from(r.start()) != prev { return 3; }
        if r.end() < r.start() { return 4; }
        if !s.is_char_boundary(u32::from(r.start()) as usize) { return 5; }
        prev = r.end().into();
    }
    if prev as usize != len { return 6; }
    for i in 0..n {
        let r = toks.range(i);
        let t = &s[u32::from(r.start()) as usize..u32::from(r.end()) as usize];
        let a = kind_agrees(toks.kind(i), t);
        if a != 0 { return a; }
    }
    // quotes / contents follow the string and char shapes: contents only between an opening quote and the end
    let mut open: Option<syntax::TokenKind> = None;
    for i in 0..n {
        use syntax::TokenKind as T;
        match toks.kind(i) {
            T::SingleQuote | T::DoubleQuote => {
                let k = toks.kind(i);
                open = match open { None => Some(k), Some(o) if o == k => None, Some(_) => return 40 };
            }
            T::Escape | T::StringContents => if open.is_none() { return 41; },
            _ => {
                // an unterminated literal ends at a newline or at the end of input; any other token closes it
                open = None;
            }
        }
    }
    0
}

// ------------------------------------------------------------------------------------------------ C23

fn check_parse(parse: &parser::Parse, s: &str) -> u32 {
    let tree = parse.syntax_tree();
    let root = tree.root();
    let r = root.range(tree);
    if u32::from(r.start()) != 0 || u32::from(r.end()) as usize != s.len() { return 1; }
    if root.text(tree) != s { return 2; }
    for e in parse.errors() {
        let (start, end) = match e.kind {
            parser::SyntaxErrorKind::Missing { offset } => (u32::from(offset), u32::from(offset)),
            parser::SyntaxErrorKind::UnexpectedToken { range, .. } => (u32::from(range.start()), u32::from(range.end())),
            parser::SyntaxErrorKind::UnexpectedNode { range, .. } => (u32::from(range.start()), u32::from(range.end())),
        };
        if end as usize > s.len() || start > end { return 3; }
    }
    0
}

/// parsing (after real lexing) is total and lossless, as a source file and as a REPL line
#[no_mangle]
pub unsafe extern "C" fn harness_lexparse(p: *const u8, len: usize, repl: u32) -> u32 {
    let s = text(p, len);
    let toks = lexer::lex(s);
    let parse = if repl != 0 { parser::parse_repl_line(&toks, s) } else { parser::parse_source_file(&toks, s) };
    check_parse(&parse, s)
}

// ------------------------------------------------------------------------------------------------ C24

use syntax::{NodeKind, TokenKind as TK};

/// the 18 binary operators with the level the documentation gives them:
/// `||` < `&&` < comparisons < `+ - | ~` < `* / % & << >>`
const BINOPS: [(TK, u8); 18] = [
    (TK::DoublePipe, 1), (TK::DoubleAnd, 2),
    (TK::Left, 3), (TK::LeftEquals, 3), (TK::Right, 3), (TK::RightEquals, 3), (TK::DoubleEquals, 3), (TK::BangEquals, 3),
    (TK::Plus, 4), (TK::Hyphen, 4), (TK::Pipe, 4), (TK::Tilde, 4),
    (TK::Asterisk, 5), (TK::Slash, 5), (TK::Percent, 5), (TK::And, 5), (TK::DoubleLeft, 5), (TK::DoubleRight, 5),
];

/// operand decorations: token kinds of one operand
fn operand(shape: u8, out: &mut Vec<TK>) {
    match shape {
        0 => out.extend([TK::Ident]),                                   // a
        1 => out.extend([TK::Hyphen, TK::Ident]),                       // -a
        2 => out.extend([TK::Bang, TK::Ident]),                         // !a
        3 => out.extend([TK::Tilde, TK::Ident]),                        // ~a
        4 => out.extend([TK::Plus, TK::Ident]),                         // +a
        5 => out.extend([TK::Caret, TK::Ident]),                        // ^a
        6 => out.extend([TK::Caret, TK::Mut, TK::Ident]),               // ^mut a
        7 => out.extend([TK::Ident, TK::LParen, TK::Ident, TK::RParen]), // a(b)
        8 => out.extend([TK::Ident, TK::LBrack, TK::Int, TK::RBrack]),  // a[0]
        9 => out.extend([TK::Ident, TK::Dot, TK::Ident]),               // a.b
        10 => out.extend([TK::Ident, TK::Dot, TK::Try]),                // a.try
        11 => out.extend([TK::Ident, TK::Caret]),                       // a^
        12 => out.extend([TK::Ident, TK::Dot, TK::LParen, TK::Ident, TK::RParen]), // T.(a)
        13 => out.extend([TK::Hyphen, TK::Ident, TK::Dot, TK::Ident]),  // -a.b
        16..=47 => {
            // one of the four prefix operators in front of an operand that carries one postfix operator
            out.push([TK::Hyphen, TK::Bang, TK::Tilde, TK::Plus][((shape - 16) / 8) as usize]);
            match (shape - 16) % 8 {
                0 => out.extend([TK::Ident, TK::LParen, TK::Ident, TK::RParen]),            // a(b)
                1 => out.extend([TK::Ident, TK::LBrack, TK::Int, TK::RBrack]),              // a[0]
                2 => out.extend([TK::Ident, TK::Dot, TK::Ident]),                           // a.b
                3 => out.extend([TK::Ident, TK::Dot, TK::Try]),                             // a.try
                4 => out.extend([TK::Ident, TK::Caret]),                                    // a^
                5 => out.extend([TK::Ident, TK::Dot, TK::LParen, TK::Ident, TK::RParen]),   // T.(a)
                6 => out.extend([TK::Ident, TK::Dot, TK::LBrace, TK::RBrace]),              // T.{}
                _ => out.extend([TK::Ident, TK::Dot, TK::LBrack, TK::Ident, TK::RBrack]),   // T.[a]
            }
        }
        // redundant parentheses (the bytes 48..51): ( a )   ( ( a ) )   ( a + b )   ( ( a + b ) )
        48 => out.extend([TK::LParen, TK::Ident, TK::RParen]),
        49 => out.extend([TK::LParen, TK::LParen, TK::Ident, TK::RParen, TK::RParen]),
        50 => out.extend([TK::LParen, TK::Ident, TK::Plus, TK::Ident, TK::RParen]),
        51 => out.extend([TK::LParen, TK::LParen, TK::Ident, TK::Plus, TK::Ident, TK::RParen, TK::RParen]),
        _ => out.extend([TK::Int]),
    }
}

/// 0: the operand has no prefix operator among - + ! ~; 1: it has one and the UnaryExpr must cover the whole operand
/// (postfix operators bind tighter than these prefix operators: "`~u64.(42)` ... you ARE trying to do `~(u64.(42))`",
/// grammar/expr.rs); 2: `!` in front of `T.(..)`, `T.{..}`, `T.[..]`, where the same comment announces that `(!T).(..)`
/// is the intended reading once inferred error unions exist: both readings are accepted
fn operand_unary(shape: u8) -> u8 {
    match shape {
        1..=4 | 13 => 1,
        // `-a^`: the parser reads `(-a)^` for all four prefix operators; nothing documents either reading, both are accepted
        16..=47 => if ((shape - 16) / 8 == 1 && (shape - 16) % 8 >= 5) || (shape - 16) % 8 == 4 { 2 } else { 1 },
        _ => 0,
    }
}

/// `x :: o0 op1 o1 op2 o2 [op3 o3] ;` — every token is 2 bytes wide; the BinaryExpr nodes of the tree must be
/// exactly the spans an operator-precedence (shunting-yard) reading of the documented table gives
#[no_mangle]
pub unsafe extern "C" fn harness_prec(ops: *const u8, nops: usize, shapes: *const u8) -> u32 {
    // bit 8 of `nops`: the expression is the condition of `x :: if E { a } else { a } ;` instead of `x :: E ;`
    let as_condition = nops & 0x100 != 0;
    let nops = nops & 0xff;
    let ops = slice::from_raw_parts(ops, nops);
    let shapes = slice::from_raw_parts(shapes, nops + 1);
    let mut kinds: Vec<TK> = vec![TK::Ident, TK::Colon, TK::Colon];
    if as_condition { kinds.push(TK::If); }
    let mut operand_span: Vec<(u32, u32)> = Vec::new();
    let mut levels: Vec<u8> = Vec::new();
    let mut inner_binary: Vec<(u32, u32)> = Vec::new();
    for i in 0..=nops {
        let start = kinds.len() as u32;
        operand(shapes[i], &mut kinds);
        let end = kinds.len() as u32;
        // the `a + b` inside the parentheses of shapes 50 / 51 is a BinaryExpr of its own
        if shapes[i] == 50 { inner_binary.push(((start + 1) * 2, (end - 1) * 2)); }
        if shapes[i] == 51 { inner_binary.push(((start + 2) * 2, (end - 2) * 2)); }
        operand_span.push((start * 2, kinds.len() as u32 * 2));
        if i < nops {
            let (k, l) = BINOPS[(ops[i] % 18) as usize];
            kinds.push(k);
            levels.push(l);
        }
    }
    if as_condition {
        kinds.extend([TK::LBrace, TK::Ident, TK::RBrace, TK::Else, TK::LBrace, TK::Ident, TK::RBrace]);
    }
    kinds.push(TK::Semicolon);
    let n = kinds.len();
    let text: String = "ab".repeat(n);
    let starts: Vec<text_size::TextSize> = (0..=n as u32).map(|i| (i * 2).into()).collect();
    let toks = token::Tokens::new(kinds, starts);
    let parse = parser::parse_source_file(&toks, &text);
    if !parse.errors().is_empty() { return 16; }
    let r = check_parse(&parse, &text);
    if r != 0 { return r; }
    // expected spans: left-associative operator-precedence parse of the level sequence
    let mut expected: Vec<(u32, u32)> = inner_binary;
    let mut vals: Vec<(u32, u32)> = vec![operand_span[0]];
    let mut opst: Vec<u8> = Vec::new();
    for i in 0..nops {
        while let Some(&top) = opst.last() {
            if top >= levels[i] {
                opst.pop();
                let b = vals.pop().unwrap(); let a = vals.pop().unwrap();
                expected.push((a.0, b.1)); vals.push((a.0, b.1));
            } else { break; }
        }
        opst.push(levels[i]);
        vals.push(operand_span[i + 1]);
    }
    while opst.pop().is_some() {
        let b = vals.pop().unwrap(); let a = vals.pop().unwrap();
        expected.push((a.0, b.1)); vals.push((a.0, b.1));
    }
    let tree = parse.syntax_tree();
    let mut got: Vec<(u32, u32)> = Vec::new();
    for nd in tree.root().descendant_nodes(tree) {
        if nd.kind(tree) == NodeKind::BinaryExpr {
            let r = nd.range(tree);
            got.push((r.start().into(), r.end().into()));
        }
    }
    got.sort(); expected.sort();
    if got.len() != expected.len() { return 17; }
    for (g, e) in got.iter().zip(expected.iter()) {
        if g != e { return 18; }
    }
    // prefix against postfix: every prefixed operand is one UnaryExpr over the whole operand
    let mut unary: Vec<(u32, u32)> = Vec::new();
    for nd in tree.root().descendant_nodes(tree) {
        if nd.kind(tree) == NodeKind::UnaryExpr {
            let r = nd.range(tree);
            unary.push((r.start().into(), r.end().into()));
        }
    }
    let mut want = 0;
    for i in 0..=nops {
        let mode = operand_unary(shapes[i]);
        if mode == 0 { continue; }
        want += 1;
        let whole = operand_span[i];
        let tight = (whole.0, whole.0 + 4);
        if !(unary.contains(&whole) || (mode == 2 && unary.contains(&tight))) { return 19; }
    }
    if unary.len() != want { return 20; }
    0
}

// ------------------------------------------------------------------------------------------------ C26

/// drives the real TopoSort the way InferenceCtx::finish does, with a plain model beside it.
/// dec: one byte per offered item per round: bit0 = register dependencies (else complete), bits 1.. = dependency mask
#[no_mangle]
pub unsafe extern "C" fn harness_topo(dec: *const u8, n: u32, rounds: u32) -> u32 {
    let n = n as usize;
    // bit 8 of `rounds`: the last round only observes what is offered (no decisions are taken in it)
    let observe_last = rounds & 0x100 != 0;
    let rounds = rounds & 0xff;
    let d = slice::from_raw_parts(dec, 64);
    let mut t: topo::TopoSort<u8> = topo::TopoSort::new();
    t.extend((0..n as u8).collect::<Vec<u8>>());
    let mut pending = [false; 8];
    for p in pending.iter_mut().take(n) { *p = true; }
    let mut dep = [[false; 8]; 8];
    let mut di = 0;
    for _round in 0..rounds {
        if t.is_empty() { break; }
        let expect_ready: Vec<u8> = (0..n as u8)
            .filter(|&i| pending[i as usize] && !(0..n).any(|c| dep[i as usize][c] && pending[c]))
            .collect();
        let all_pending: Vec<u8> = (0..n as u8).filter(|&i| pending[i as usize]).collect();
        let leaves: Vec<u8> = match t.peek_all() {
            Ok(l) => {
                let mut v: Vec<u8> = l.into_iter().cloned().collect();
                v.sort();
                if v != expect_ready { return 1; }
                v
            }
            Err(_) => {
                // a cycle may only be reported when every pending item still waits on a pending item
                if !expect_ready.is_empty() { return 2; }
                if all_pending.is_empty() { return 6; }
                if !t.in_cycle() { return 7; }
                let mut v: Vec<u8> = t.peek_all_cyclic().unwrap().into_iter().cloned().collect();
                v.sort();
                if v != all_pending { return 3; }
                v
            }
        };
        if leaves.is_empty() { return 4; }
        if observe_last && _round + 1 == rounds { return 0; }
        for item in leaves {
            let choice = d[di]; di += 1;
            if choice & 1 == 0 {
                if !t.remove(&item) { return 8; }
                pending[item as usize] = false;
            } else {
                let mask = choice >> 1;
                let deps: Vec<u8> = (0..n as u8).filter(|&c| c != item && pending[c as usize] && (mask >> c) & 1 == 1).collect();
                for &c in &deps { dep[item as usize][c as usize] = true; }
                t.insert_deps(item, deps);
            }
        }
        if t.len() != pending.iter().filter(|p| **p).count() { return 9; }
    }
    let any_pending = pending.iter().any(|p| *p);
    if t.is_empty() == any_pending { return 5; }
    0
}

// ------------------------------------------------------------------------------------------------ C09

/// Ty::get_max_int_size for the integer type (signed, width in bits); u64::MAX + 1 is not representable, so the
/// result is returned as (has_value << 64 | value) split over two words through `out`
#[no_mangle]
pub unsafe extern "C" fn harness_max_int(signed: u32, width: u32, out: *mut u64) -> u32 {
    use hir::common::Ty;
    let t = if signed != 0 { Ty::IInt(width as u8) } else { Ty::UInt(width as u8) };
    match t.get_max_int_size() {
        Some(v) => { *out = v; 1 }
        None => 0,
    }
}

/// the lexer on a text over the numeric-literal alphabet: a text matching one of the four literal regexes is
/// exactly one token of that kind; returns 0 when consistent
#[no_mangle]
pub unsafe extern "C" fn harness_lex_literal(p: *const u8, len: usize) -> u32 {
    use syntax::TokenKind as T;
    let s = text(p, len);
    let b = s.as_bytes();
    let toks = lexer::lex(s);
    // the regexes overlap only where the tokenizer's priority decides (`0x1`/`0b1` are Hex/Bin, and also Int-prefixed)
    let want = if matches_hex(b) { Some(T::Hex) } else if matches_bin(b) { Some(T::Bin) }
        else if matches_int(b) { Some(T::Int) } else if matches_float(b) { Some(T::Float) } else { None };
    match want {
        Some(k) => {
            if toks.len() != 1 { return 1; }
            if toks.kind(0) != k { return 2; }
            0
        }
        None => {
            // not a literal as a whole: it must not come out as one single literal token
            if toks.len() == 1 && matches!(toks.kind(0), T::Int | T::Float | T::Hex | T::Bin) { return 3; }
            0
        }
    }
}
