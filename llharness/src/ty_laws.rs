//! C12 / C13: laws of the implicit-conversion relations of `hir::common::Ty`, on types built from symbolic bytes.
//!
//! A type is described by 7 bytes: [outer constructor, inner constructor, leaf kind, width, mutable, size, uid].
use hir::common::{BinaryOutput, MemberTy, Name, ParamTy, Ty, TypedOp};
use internment::Intern;
use std::slice;

pub const DESC: usize = 7;

fn leaf(k: u8, w: u8, m: bool) -> Ty {
    match k {
        0 => Ty::IInt(w),
        1 => Ty::UInt(w),
        2 => Ty::Float(w),
        3 => Ty::Bool,
        4 => Ty::String,
        5 => Ty::Char,
        6 => Ty::Type,
        7 => Ty::Any,
        8 => Ty::RawPtr { mutable: m },
        9 => Ty::RawSlice,
        10 => Ty::Void,
        11 => Ty::Nil,
        12 => Ty::AlwaysJumps,
        _ => Ty::Unknown,
    }
}

fn name(i: u32) -> Name {
    // `Name` wraps an interner key; keys are plain indices, any fixed one will do for one-member structs
    let mut it = interner::Interner::default();
    let k = if i == 0 { it.intern("x") } else { it.intern("y") };
    Name(k)
}

fn wrap(c: u8, inner: Ty, m: bool, n: u64, uid: u32) -> Ty {
    let i = Intern::new(inner);
    match c {
        0 => i.as_ref().clone(),
        1 => Ty::Pointer { mutable: m, sub_ty: i },
        2 => Ty::Slice { sub_ty: i },
        3 => Ty::ConcreteArray { size: n, sub_ty: i },
        4 => Ty::AnonArray { size: n, sub_ty: i },
        5 => Ty::Distinct { uid, sub_ty: i },
        6 => Ty::Optional { sub_ty: i },
        7 => Ty::ErrorUnion { error_ty: Intern::new(Ty::String), payload_ty: i },
        8 => Ty::ConcreteStruct { uid, members: vec![MemberTy { name: name(0), ty: i }] },
        9 => Ty::AnonStruct { members: vec![MemberTy { name: name(0), ty: i }] },
        _ => Ty::FunctionPointer {
            param_tys: vec![ParamTy { ty: i, comptime: None, varargs: false, impossible_to_differentiate: false }],
            return_ty: Intern::new(Ty::Void),
        },
    }
}

pub const N_CONS: u8 = 11;
pub const N_LEAF: u8 = 14;

/// validity of a description as the checker can build the type (see DESIGN.md C12): returns None when outside
fn build(d: &[u8]) -> Option<Ty> {
    let (c2, c1, k, w, m, n, uid) = (d[0], d[1], d[2], d[3], d[4] != 0, d[5] as u64, d[6] as u32);
    if c2 >= N_CONS || c1 >= N_CONS || k >= N_LEAF { return None; }
    if c2 == 0 && c1 != 0 { return None; } // canonical form: a single constructor is the outer one... (c2 outer, c1 inner)
    let depth = (c2 != 0) as u8 + (c1 != 0) as u8;
    // widths
    match k {
        0 | 1 => if !matches!(w, 0 | 8 | 16 | 32 | 64 | 128 | 255) { return None; },
        2 => if !matches!(w, 0 | 32 | 64) { return None; },
        _ => if w != 0 { return None; },
    }
    // nil, always-jumps and unknown only stand alone; void only alone or as the payload of an optional / error union
    if k >= 11 && depth != 0 { return None; }
    if k == 10 && depth != 0 {
        let innermost = if c1 != 0 { c1 } else { c2 };
        if !(innermost == 6 || innermost == 7) { return None; }
    }
    let l = leaf(k, w, m);
    let inner = if c1 != 0 { wrap(c1, l, m, n, uid + 10) } else { l };
    Some(wrap(c2, inner, m, n, uid))
}

fn collect_uids(t: &Ty, out: &mut Vec<(u32, Ty)>) {
    match t {
        Ty::Distinct { uid, sub_ty } => { out.push((*uid, t.clone())); collect_uids(sub_ty, out); }
        Ty::ConcreteStruct { uid, members } => { out.push((*uid + 1000, t.clone())); for m in members { collect_uids(&m.ty, out); } }
        Ty::Pointer { sub_ty, .. } | Ty::Slice { sub_ty } | Ty::ConcreteArray { sub_ty, .. } | Ty::AnonArray { sub_ty, .. }
        | Ty::Optional { sub_ty } => collect_uids(sub_ty, out),
        Ty::ErrorUnion { error_ty, payload_ty } => { collect_uids(error_ty, out); collect_uids(payload_ty, out); }
        Ty::AnonStruct { members } => for m in members { collect_uids(&m.ty, out); },
        Ty::FunctionPointer { param_tys, return_ty } => { for p in param_tys { collect_uids(&p.ty, out); } collect_uids(return_ty, out); }
        _ => {}
    }
}

/// a uid identifies one type
fn uids_consistent(a: &Ty, b: &Ty) -> bool {
    let mut v = Vec::new();
    collect_uids(a, &mut v); collect_uids(b, &mut v);
    for i in 0..v.len() {
        for j in (i + 1)..v.len() {
            if v[i].0 == v[j].0 && v[i].1 != v[j].1 { return false; }
        }
    }
    true
}

fn is_nominal(t: &Ty) -> Option<u32> {
    match t {
        Ty::Distinct { uid, .. } => Some(*uid),
        Ty::ConcreteStruct { uid, .. } => Some(*uid + 1000),
        _ => None,
    }
}

/// p points at two 7-byte descriptions. result: 0 = every law holds; 0x8000_0000 = description outside the
/// universe (assumption failed, not a violation); otherwise a bit per broken law.
#[no_mangle]
pub unsafe extern "C" fn harness_laws(p: *const u8) -> u32 {
    let b = slice::from_raw_parts(p, 2 * DESC);
    let (a, c) = match (build(&b[..DESC]), build(&b[DESC..])) {
        (Some(a), Some(c)) => (a, c),
        _ => return 0x8000_0000,
    };
    if !uids_consistent(&a, &c) { return 0x8000_0000; }
    let fit = a.can_fit_into(&c);
    let cast = a.can_cast_to(&c);
    let weak = a.is_weak_replaceable_by(&c);
    let m1 = a.max(&c);
    let m2 = c.max(&a);
    let mut r = 0;
    if !a.can_fit_into(&a) { r |= 1; }
    if fit && !cast { r |= 2; }
    if weak && !fit { r |= 4; }
    if m1 != m2 {
        r |= 8;
        // cause class of an asymmetry (bits 12..15), used only to key known findings by role
        let jumpy = |t: &Ty| matches!(t, Ty::AlwaysJumps | Ty::Unknown);
        r |= if jumpy(&a) && jumpy(&c) { 1 << 12 } else { 2 << 12 };
    }
    if let Some(m) = &m1 {
        if !(a.can_fit_into(m) && c.can_fit_into(m)) {
            r |= 16;
            // cause class of a max that one operand does not fit into (bits 8..11)
            let weak_num = |t: &Ty| matches!(t, Ty::IInt(0) | Ty::UInt(0) | Ty::Float(0));
            let other = if *m == a { &c } else { &a };
            let cause = if matches!(m, Ty::Distinct { .. }) && (*m == a || *m == c) { if weak_num(other) { 6 } else { 1 } }
                else if *m == Ty::Type { 2 }
                else if matches!(m, Ty::Optional { .. }) { 3 }
                else if matches!(m, Ty::ErrorUnion { .. }) { 4 }
                else { 5 };
            r |= cause << 8;
        }
    }
    // C13: nominal types are not implicitly accepted where a different nominal type, or their own underlying
    // type, is expected
    if let Some(ua) = is_nominal(&a) {
        let other_nominal = matches!(is_nominal(&c), Some(uc) if uc != ua);
        let underlying = match &a { Ty::Distinct { sub_ty, .. } => **sub_ty == c, _ => false };
        // `any` (and the checker's `unknown`) accept every value by definition
        let accepts_all = matches!(c, Ty::Any | Ty::Unknown);
        if (other_nominal || underlying) && fit && !accepts_all {
            r |= 32;
            // cause class (bits 16..19): the expected type is a distinct wrapper of `any`
            r |= if matches!(c.absolute_ty(), Ty::Any) { 1 << 16 } else { 2 << 16 };
        }
        if let Ty::Distinct { sub_ty, .. } = &a {
            if **sub_ty == c && !(cast && c.can_cast_to(&a)) { r |= 64; }
        }
        // ... "used in ... binary operations": no binary operator has an output type for a nominal operand and a
        // different nominal type or its own (strongly typed) underlying type, in either operand order. Untyped
        // literals are the documented exception; `any` / unknown / always-jumps operands are not values of a type.
        let literal = matches!(c, Ty::IInt(0) | Ty::UInt(0) | Ty::Float(0));
        let not_a_value = matches!(c, Ty::Any | Ty::Unknown | Ty::AlwaysJumps | Ty::Nil | Ty::Void);
        if (other_nominal || underlying) && !literal && !not_a_value {
            let mut accepted = false;
            for op in BINOPS {
                if op.get_possible_output_ty(&a, &c).is_some_and(|o| op.can_perform(&o.max_ty))
                    || op.get_possible_output_ty(&c, &a).is_some_and(|o| op.can_perform(&o.max_ty)) { accepted = true; }
            }
            if accepted {
                r |= 128;
                // cause class (bits 20..23): 1 = a distinct with its own strongly typed, non-integer underlying type
                // (Ty::max goes through has_semantics_of, which only refuses strongly typed integers); 2 = anything else
                let non_int_underlying = underlying && !matches!(c.absolute_ty(), Ty::IInt(_) | Ty::UInt(_));
                r |= if non_int_underlying { 1 << 20 } else { 2 << 20 };
            }
        }
    }
    r
}

const BINOPS: [hir::BinaryOp; 20] = [
    hir::BinaryOp::Add, hir::BinaryOp::Sub, hir::BinaryOp::Mul, hir::BinaryOp::Div, hir::BinaryOp::Mod,
    hir::BinaryOp::Lt, hir::BinaryOp::Gt, hir::BinaryOp::Le, hir::BinaryOp::Ge, hir::BinaryOp::Eq, hir::BinaryOp::Ne,
    hir::BinaryOp::BAnd, hir::BinaryOp::BOr, hir::BinaryOp::Xor, hir::BinaryOp::LShift, hir::BinaryOp::RShift,
    hir::BinaryOp::LAnd, hir::BinaryOp::LOr, hir::BinaryOp::Eq, hir::BinaryOp::Ne,
];

/// prints what the relations say about the two described types (triage aid for replays; never run symbolically)
#[no_mangle]
pub unsafe extern "C" fn harness_laws_explain(p: *const u8) -> u32 {
    let b = slice::from_raw_parts(p, 2 * DESC);
    let (a, c) = match (build(&b[..DESC]), build(&b[DESC..])) {
        (Some(a), Some(c)) => (a, c),
        _ => { println!("outside the universe"); return 0; }
    };
    println!("A = {:?}", a);
    println!("B = {:?}", c);
    println!("fit(A,B) = {}  cast(A,B) = {}  weak(A,B) = {}", a.can_fit_into(&c), a.can_cast_to(&c), a.is_weak_replaceable_by(&c));
    println!("fit(B,A) = {}  cast(B,A) = {}  weak(B,A) = {}", c.can_fit_into(&a), c.can_cast_to(&a), c.is_weak_replaceable_by(&a));
    let m1 = a.max(&c);
    println!("max(A,B) = {:?}", m1);
    println!("max(B,A) = {:?}", c.max(&a));
    if let Some(m) = &m1 { println!("fit(A,M) = {}  fit(B,M) = {}", a.can_fit_into(m), c.can_fit_into(m)); }
    0
}

/// variants of one enum / two enums with identical payloads: max + fit laws through ENUM_MAP, and nominality
#[no_mangle]
pub unsafe extern "C" fn harness_variants(sel: u8, w: u8) -> u32 {
    use hir::common::set_enum_uid;
    let mut it = interner::Interner::default();
    let va: Intern<Ty> = Ty::EnumVariant { enum_uid: 1, variant_name: Name(it.intern("A")), uid: 10, sub_ty: Ty::IInt(w).into(), discriminant: 0 }.into();
    let vb: Intern<Ty> = Ty::EnumVariant { enum_uid: 1, variant_name: Name(it.intern("B")), uid: 11, sub_ty: Ty::Void.into(), discriminant: 1 }.into();
    let e1: Intern<Ty> = Ty::Enum { uid: 1, variants: vec![va, vb] }.into();
    let vc: Intern<Ty> = Ty::EnumVariant { enum_uid: 2, variant_name: Name(it.intern("A")), uid: 12, sub_ty: Ty::IInt(w).into(), discriminant: 0 }.into();
    let e2: Intern<Ty> = Ty::Enum { uid: 2, variants: vec![vc] }.into();
    set_enum_uid(1, e1);
    set_enum_uid(2, e2);
    let payload: Intern<Ty> = Ty::IInt(w).into();
    let cands: [Intern<Ty>; 6] = [va, vb, vc, e1, e2, payload];
    let a = cands[(sel % 6) as usize];
    let b = cands[((sel / 6) % 6) as usize];
    let mut r = 0;
    let m1 = a.max(&b);
    let m2 = b.max(&a);
    if m1 != m2 { r |= 8; }
    if let Some(m) = &m1 {
        if !(a.can_fit_into(m) && b.can_fit_into(m)) { r |= 16; }
    }
    if !a.can_fit_into(&a) { r |= 1; }
    if a.can_fit_into(&b) && !a.can_cast_to(&b) { r |= 2; }
    // nominality: a variant fits only itself and its own enum (and weak ints may fit a variant's payload type)
    if let Ty::EnumVariant { enum_uid, .. } = &*a {
        if a.can_fit_into(&b) && *a != *b {
            let own_enum = matches!(&*b, Ty::Enum { uid, .. } if uid == enum_uid);
            if !own_enum { r |= 32; }
        }
    }
    r
}
