//! Entry points for Engine A over crates/codegen (through the guarded verif_hooks): layout rules (C17),
//! simple type ids (C18), mangled symbol assembly (C27).
#![allow(clippy::missing_safety_doc)]

use codegen::verif_hooks::{convert as C, layout as L, mangle as M};
use hir::common::{MemberTy, Name, Ty};
use internment::Intern;
use std::slice;

fn pow2(shift: u8) -> u32 { 1u32 << (shift & 3) }

fn stride_of(size: u32, align: u32) -> u32 { (size + align - 1) / align * align }

/// distinct leaf types used as children whose layouts are SEEDED (not computed): the inductive step
fn child(i: usize) -> Intern<Ty> {
    match i {
        0 => Ty::IInt(8).into(),
        1 => Ty::IInt(16).into(),
        2 => Ty::IInt(32).into(),
        _ => Ty::IInt(64).into(),
    }
}

/// p: [ptr_width_sel, nfields, (size, align_shift) x 4]: a struct of 1..4 fields over seeded children
#[no_mangle]
pub unsafe extern "C" fn harness_struct_layout(p: *const u8) -> u32 {
    let b = slice::from_raw_parts(p, 10);
    let pw = if b[0] == 0 { 64 } else { 32 };
    let n = b[1] as usize;
    if n == 0 || n > 4 { return 0; }
    L::reset(pw);
    let mut s = [0u32; 4];
    let mut a = [1u32; 4];
    for i in 0..n {
        s[i] = b[2 + 2 * i] as u32;
        a[i] = pow2(b[3 + 2 * i]);
        L::seed(child(i), s[i], a[i]);
    }
    let mut it = interner::Interner::default();
    let names = [Name(it.intern("a")), Name(it.intern("b")), Name(it.intern("c")), Name(it.intern("d"))];
    let st: Intern<Ty> = Ty::ConcreteStruct { uid: 0, members: (0..n).map(|i| MemberTy { name: names[i], ty: child(i) }).collect() }.into();
    L::calc_single(st, pw);
    let offs = match L::struct_offsets(st) { Some(o) => o, None => return 1 };
    let size = L::size(st);
    let align = L::align(st);
    if offs.len() != n { return 1; }
    let mut mx = 1;
    let mut prev_end = 0;
    for i in 0..n {
        if offs[i] % a[i] != 0 { return 2; }          // aligned
        if offs[i] < prev_end { return 3; }            // declaration order, no overlap
        if offs[i] - prev_end >= a[i] { return 5; }    // no more padding than alignment needs
        prev_end = offs[i] + s[i];
        if a[i] > mx { mx = a[i]; }
    }
    if prev_end > size { return 6; }                   // inside the struct's size
    if align != mx { return 4; }                       // alignment is the largest field alignment
    if !align.is_power_of_two() || align > 8 { return 7; }
    let st_ = L::stride(st);
    if st_ != stride_of(size, align) { return 8; }
    // the anonymous struct with the same members has the same layout
    let an: Intern<Ty> = Ty::AnonStruct { members: (0..n).map(|i| MemberTy { name: names[i], ty: child(i) }).collect() }.into();
    L::calc_single(an, pw);
    if L::size(an) != size || L::align(an) != align || L::struct_offsets(an) != Some(offs) { return 9; }
    0
}

/// p: [ctor, ptr_width_sel, s0, a0, s1, a1, s2, a2, n_lo, n_hi]
/// ctor: 0 enum(3 variants) 1 optional(non-pointer) 2 error union 3 array 4 distinct 5 variant 6 optional(pointer) 7 slice 8 pointer 9 any 10 anon array
#[no_mangle]
pub unsafe extern "C" fn harness_ctor_layout(p: *const u8) -> u32 {
    let b = slice::from_raw_parts(p, 10);
    let pw: u32 = if b[1] == 0 { 64 } else { 32 };
    let pb = pw / 8;
    L::reset(pw);
    let (k0, k1, k2) = (child(0), child(1), child(2));
    let (s0, a0) = (b[2] as u32, pow2(b[3]));
    let (s1, a1) = (b[4] as u32, pow2(b[5]));
    let (s2, a2) = (b[6] as u32, pow2(b[7]));
    L::seed(k0, s0, a0); L::seed(k1, s1, a1); L::seed(k2, s2, a2);
    let n = (b[8] as u64) | ((b[9] as u64) << 8);
    let mut it = interner::Interner::default();
    match b[0] {
        0 => {
            let v0: Intern<Ty> = Ty::EnumVariant { enum_uid: 9, variant_name: Name(it.intern("A")), uid: 1, sub_ty: k0, discriminant: 0 }.into();
            let v1: Intern<Ty> = Ty::EnumVariant { enum_uid: 9, variant_name: Name(it.intern("B")), uid: 2, sub_ty: k1, discriminant: 1 }.into();
            let v2: Intern<Ty> = Ty::EnumVariant { enum_uid: 9, variant_name: Name(it.intern("C")), uid: 3, sub_ty: k2, discriminant: 7 }.into();
            let e: Intern<Ty> = Ty::Enum { uid: 9, variants: vec![v0, v1, v2] }.into();
            L::calc_single(e, pw);
            let mx = s0.max(s1).max(s2);
            if L::size(v0) != s0 || L::align(v0) != a0 || L::size(v2) != s2 || L::align(v2) != a2 { return 10; }
            if L::enum_discriminant_offset(e) != Some(mx) { return 11; }   // tag after the largest payload
            if L::size(e) != mx + 1 { return 12; }
            if L::align(e) != a0.max(a1).max(a2) { return 13; }
            if L::stride(e) != stride_of(mx + 1, a0.max(a1).max(a2)) { return 14; }
        }
        1 => {
            let o: Intern<Ty> = Ty::Optional { sub_ty: k0 }.into();
            L::calc_single(o, pw);
            if L::enum_discriminant_offset(o) != Some(s0) || L::size(o) != s0 + 1 || L::align(o) != a0 { return 20; }
        }
        2 => {
            let u: Intern<Ty> = Ty::ErrorUnion { error_ty: k0, payload_ty: k1 }.into();
            L::calc_single(u, pw);
            let mx = s0.max(s1);
            if L::enum_discriminant_offset(u) != Some(mx) || L::size(u) != mx + 1 || L::align(u) != a0.max(a1) { return 30; }
        }
        3 | 10 => {
            let a: Intern<Ty> = if b[0] == 3 { Ty::ConcreteArray { size: n, sub_ty: k0 }.into() } else { Ty::AnonArray { size: n, sub_ty: k0 }.into() };
            L::calc_single(a, pw);
            if L::size(a) as u64 != n * stride_of(s0, a0) as u64 { return 40; }   // length x element stride
            if L::align(a) != a0 { return 41; }
        }
        4 => {
            let d: Intern<Ty> = Ty::Distinct { uid: 3, sub_ty: k1 }.into();
            L::calc_single(d, pw);
            if L::size(d) != s1 || L::align(d) != a1 { return 50; }
        }
        5 => {
            let v: Intern<Ty> = Ty::EnumVariant { enum_uid: 9, variant_name: Name(it.intern("A")), uid: 1, sub_ty: k1, discriminant: 0 }.into();
            L::calc_single(v, pw);
            if L::size(v) != s1 || L::align(v) != a1 { return 55; }
        }
        6 => {
            let ptr: Intern<Ty> = Ty::Pointer { mutable: false, sub_ty: k0 }.into();
            let o: Intern<Ty> = Ty::Optional { sub_ty: ptr }.into();
            L::calc_single(o, pw);
            if L::size(o) != pb || L::align(o) != pb.min(8) { return 60; }        // exactly pointer-sized, no tag
            if L::enum_discriminant_offset(o).is_some() { return 61; }
        }
        7 => {
            let sl: Intern<Ty> = Ty::Slice { sub_ty: k0 }.into();
            L::calc_single(sl, pw);
            if L::size(sl) != 2 * pb || L::align(sl) != pb.min(8) { return 70; }
        }
        8 => {
            let ptr: Intern<Ty> = Ty::Pointer { mutable: true, sub_ty: k0 }.into();
            L::calc_single(ptr, pw);
            if L::size(ptr) != pb || L::align(ptr) != pb.min(8) { return 80; }
        }
        _ => {
            let any: Intern<Ty> = Ty::Any.into();
            L::calc_single(any, pw);
            // type id (4 bytes) then a raw pointer at its aligned offset
            let off = stride_of(4, pb.min(8));
            if L::size(any) != off + pb || L::align(any) != pb.min(8).max(4) { return 90; }
        }
    }
    0
}

/// every primitive: size = width/8 (pointer width for isize/usize/pointers), align = min(size, 8)
/// p: [kind, width_sel, ptr_width_sel]; kind 0 int 1 uint 2 float 3 bool 4 char 5 str 6 rawptr 7 rawslice 8 type 9 void
#[no_mangle]
pub unsafe extern "C" fn harness_prim_layout(p: *const u8) -> u32 {
    let b = slice::from_raw_parts(p, 3);
    let pw: u32 = if b[2] == 0 { 64 } else { 32 };
    let pb = pw / 8;
    L::reset(pw);
    let widths = [8u8, 16, 32, 64, 128, 255];
    let w = widths[(b[1] % 6) as usize];
    let (ty, size): (Intern<Ty>, u32) = match b[0] {
        0 => (Ty::IInt(w).into(), if w == 255 { pb } else { w as u32 / 8 }),
        1 => (Ty::UInt(w).into(), if w == 255 { pb } else { w as u32 / 8 }),
        2 => { let fw = if b[1] & 1 == 0 { 32 } else { 64 }; (Ty::Float(fw).into(), fw as u32 / 8) }
        3 => (Ty::Bool.into(), 1),
        4 => (Ty::Char.into(), 1),
        5 => (Ty::String.into(), pb),
        6 => (Ty::RawPtr { mutable: b[1] & 1 == 1 }.into(), pb),
        7 => (Ty::RawSlice.into(), 2 * pb),
        8 => (Ty::Type.into(), 4),
        _ => (Ty::Void.into(), 0),
    };
    L::calc_single(ty, pw);
    if L::size(ty) != size { return 1; }
    let want_align = match b[0] { 7 => pb.min(8), 9 => 1, _ => size.min(8).max(1) };
    if L::align(ty) != want_align { return 2; }
    let al = L::align(ty);
    if !al.is_power_of_two() || al > 8 { return 3; }
    0
}

#[no_mangle]
pub unsafe extern "C" fn harness_padding(offset: u32, shift: u8) -> u32 {
    let align = pow2(shift);
    let p = L::padding_needed_for(offset, align);
    if p >= align { return 1; }
    if (offset as u64 + p as u64) % align as u64 != 0 { return 2; }
    0
}

// ------------------------------------------------------------------------------------------------ C18 (L1)

/// the simple type id packs discriminant (bits 26..31), signedness (bit 9), alignment (bits 5..8), size (bits 0..4)
#[no_mangle]
pub unsafe extern "C" fn harness_simple_id(disc: u32, size: u32, align: u32, signed: u32) -> u32 {
    C::simple_id_with_align(disc, size, align, signed != 0)
}

/// simple_id(discriminant, bit_width, signed): size = bit_width / 8, align = clamp(size, 1, 8)
#[no_mangle]
pub unsafe extern "C" fn harness_simple_id_bits(disc: u32, bit_width: u32, signed: u32) -> u32 {
    C::simple_id(disc, bit_width, signed != 0)
}

// ------------------------------------------------------------------------------------------------ C27

/// p: two descriptors, each [nparts, (kind, len, 3 text bytes) x 4]; q: out flag
/// returns 1 when two DIFFERENT (kind, text) lists mangle to the same string, 2 when a result is `main` or
/// has the shape of a compiler-internal symbol while not being one
#[no_mangle]
pub unsafe extern "C" fn harness_mangle(p: *const u8) -> u32 {
    const D: usize = 1 + 4 * 5;
    let b = slice::from_raw_parts(p, 2 * D);
    let mut descs: Vec<Vec<(u8, &str)>> = Vec::new();
    for d in 0..2 {
        let base = d * D;
        let n = (b[base] as usize).min(4);
        let mut parts = Vec::new();
        for i in 0..n {
            let o = base + 1 + 5 * i;
            let len = (b[o + 1] as usize).clamp(1, 3);
            let t = std::str::from_utf8_unchecked(&b[o + 2..o + 2 + len]);
            parts.push((b[o], t));
        }
        descs.push(parts);
    }
    let a = M::mangle_parts(&descs[0]);
    let c = M::mangle_parts(&descs[1]);
    let same_in = descs[0] == descs[1];
    if a == c && !same_in { return 1; }
    if a == "main" || c == "main" { return 2; }
    0
}
