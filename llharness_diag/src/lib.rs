//! C25, second sentence: every rendered diagnostic names the 1-based position where its range starts.
//! The real `Diagnostic::display` renders a validation warning whose range is given by the caller; the harness
//! reads the `--> at <file>:<line>:<col>` header back and compares it with a direct count over the text.
use std::slice;

use ast::validation::{ValidationDiagnostic, ValidationDiagnosticKind};
use text_size::{TextRange, TextSize};

/// 0: header as expected; 1: no header line; 2: header does not parse; 3: wrong line; 4: wrong column.
/// Precondition (checked, 0x8000_0000 otherwise): valid UTF-8, start <= end <= len on char boundaries, the range
/// starts on a byte that is not a line terminator and (when not empty) ends with one that is not.
#[no_mangle]
pub unsafe extern "C" fn harness_diag_header(p: *const u8, len: usize, start: u32, end: u32) -> u32 {
    let bytes = slice::from_raw_parts(p, len);
    let Ok(s) = std::str::from_utf8(bytes) else { return 0x8000_0000; };
    let (st, en) = (start as usize, end as usize);
    if st > en || en > len || !s.is_char_boundary(st) || !s.is_char_boundary(en) { return 0x8000_0000; }
    // ranges come from tokens and nodes: they start on a token and end with one. A range whose first or last byte is a
    // line terminator is not something the compiler is known to produce (only the "missing ..." syntax errors point
    // at a terminator, and they are rendered in arrow mode); an empty range sits in front of a token (`)` for a missing
    // argument), possibly at the start of a line.
    let term = |b: u8| b == b'\n' || b == b'\r';
    if st >= len || term(bytes[st]) { return 0x8000_0000; }
    if en > st && term(bytes[en - 1]) { return 0x8000_0000; }
    let d = diagnostics::Diagnostic::from_validation(ValidationDiagnostic {
        kind: ValidationDiagnosticKind::AlwaysTrue,
        range: TextRange::new(TextSize::from(start), TextSize::from(end)),
    });
    let li = line_index::LineIndex::new(s);
    let it = interner::Interner::default();
    let lines = d.display("f", s, std::path::Path::new(""), &it, &li, false);
    // reference: 1-based line = 1 + number of '\n' before start; 1-based column = 1 + bytes since the line start
    let before = &bytes[..st];
    let want_line = 1 + before.iter().filter(|b| **b == b'\n').count();
    let line_start = before.iter().rposition(|b| *b == b'\n').map(|i| i + 1).unwrap_or(0);
    let want_col = 1 + st - line_start;
    let Some(h) = lines.iter().find(|l| l.contains("--> at ")) else { return 1; };
    let tail = &h[h.find("--> at ").unwrap() + 7..];
    let mut parts = tail.trim_end().rsplitn(3, ':');
    let (Some(c), Some(l)) = (parts.next(), parts.next()) else { return 2; };
    let (Ok(c), Ok(l)) = (c.trim().parse::<usize>(), l.trim().parse::<usize>()) else { return 2; };
    if l != want_line { return 3; }
    if c != want_col { return 4; }
    0
}
