"""C01 — well-typed programs are accepted and run exactly as the semantics prescribe.

Engine B + reference semantics (DESIGN.md section 5, C01). A seeded generator produces well-typed mini-Capy programs
(integers of every width, bool, structs, fixed arrays, optionals, functions, while loops with counters, labeled
blocks yielding values, break/continue/return, defer, switch over optionals with payload binding, #unwrap /
#is_variant, casts, compound assignment, short-circuit operators, bounds-checked indexing with symbolic indexes).
The real compiler must accept each one (a rejection or crash of a well-typed-by-construction program is a
violation); the entry function's Cranelift IR is executed symbolically over ALL values of its scalar parameters and
compared, path pair by path pair, with the reference interpreter of lib/refsem.py (written from README.md): exit
status (return / abort with status 1 after a message), the sequence of `mark` values and the result must agree for
every input. The C `main` wrapper is checked to return the entry result cast to usize.
"""
import random
import z3

from lib import common, clifcheck, replay as replaylib, refsem, elfdata
from lib.common import Inconclusive
from lib.clifcheck import Prover, model_val, bits_of
from lib.refsem import INTS
from engine.clifsym import Engine, State, Unsupported

LEVEL = 'translation_validation'
BV = z3.BitVecVal
INT_NAMES = ['i8', 'i16', 'i32', 'i64', 'u8', 'u16', 'u32', 'u64', 'usize']
MAX_PATHS = 160


class Gen:
    def __init__(self, rnd, idx):
        self.r = rnd; self.idx = idx; self.nv = 0; self.nlab = 0; self.marks = 0
        self.structs = {'P%d' % idx: [('a', 'i32'), ('b', 'u8'), ('c', 'i64')]}
        self.sname = 'P%d' % idx
        self.cname = 'C%d' % idx
        self.structs[self.cname] = [('id', 'u16'), ('tag', 'u8')]     # size 3, align 2: stride 4
        self.helpers = []

    def value_of(self, scope, t):
        if isinstance(t, str):
            return self.int_expr(scope, t, 1)
        if t[0] == 'struct':
            return ('struct', t[1], [(f, self.int_expr(scope, ft, 1)) for f, ft in self.structs[t[1]]])
        if t[0] == 'opt':
            return ('nil',) if self.r.random() < 0.25 else self.int_expr(scope, t[1], 1)
        if t[0] == 'array':
            return ('array', t[2], [self.value_of(scope, t[2]) for _ in range(t[1])])
        raise ValueError(t)

    def agg_scenario(self, scope):
        """aggregates are values and `==` / `!=` compare them member by member: build x, copy it to y, change one member
        of y (constant or symbolic position, symbolic value), observe x == y and x != y"""
        r = self.r
        elem = r.choice([('struct', self.cname), ('struct', self.sname), ('opt', 'i32'), ('opt', 'i64'), ('opt', 'u8'), 'u8', 'i64'])
        shape = r.choice(['array', 'array', 'array', 'single'])
        if shape == 'single' and isinstance(elem, str):
            shape = 'array'
        t = ('array', 3, elem) if shape == 'array' else elem
        x = self.fresh('x'); y = self.fresh('y')
        out = [('let', x, t, self.value_of(scope, t), True), ('let', y, t, ('var', x), True)]
        target = ('var', y)
        if shape == 'array':
            idx = ('int', r.randint(0, 2), 'usize') if r.random() < 0.7 else ('cast', 'usize', ('bin', 'and', self.int_expr(scope, 'u8', 1), ('int', 3, 'u8')))
            target = ('index', target, idx)
        if isinstance(elem, tuple) and elem[0] == 'struct':
            f, ft = r.choice(self.structs[elem[1]])
            out.append(('assign', ('field', target, f), self.int_expr(scope, ft, 1)))
        elif isinstance(elem, tuple) and elem[0] == 'opt':
            out.append(('assign', target, ('nil',) if r.random() < 0.25 else self.int_expr(scope, elem[1], 1)))
        else:
            out.append(('assign', target, self.int_expr(scope, elem, 1)))
        self.marks += 4
        out.append(('if', ('bin', 'eq', ('var', x), ('var', y)), [('markc', 7000 + self.marks)], [('markc', 7001 + self.marks)]))
        if r.random() < 0.5:
            out.append(('if', ('bin', 'ne', ('var', y), ('var', x)), [('markc', 7002 + self.marks)], None))
        return ('block', None, out)

    def fresh(self, p='v'):
        self.nv += 1
        return '%s%d' % (p, self.nv)

    # scope: list of (name, type, mutable)
    def vars_of(self, scope, t, mutable=False):
        return [n for n, ty, m in scope if ty == t and (m or not mutable)]

    def int_expr(self, scope, t, depth):
        r = self.r
        bits, signed = INTS[t]
        choice = r.random()
        vs = self.vars_of(scope, t)
        if depth <= 0 or choice < 0.25:
            if vs and r.random() < 0.75:
                return ('var', r.choice(vs))
            others = [(n, ty) for n, ty, m in scope if isinstance(ty, str) and ty in INTS and ty != t]
            if others and r.random() < 0.7:
                n, ty = r.choice(others)
                return ('cast', t, ('var', n))
            return ('int', r.choice([0, 1, 2, 3, 5, 7, (1 << (bits - 1)) - 1 if signed else (1 << bits) - 1, 100 % (1 << (bits - 1))]), t)
        if choice < 0.55:
            op = r.choice(['add', 'sub', 'mul', 'and', 'or', 'xor'])
            return ('bin', op, self.int_expr(scope, t, depth - 1), self.int_expr(scope, t, depth - 1))
        if choice < 0.62 and not signed:
            op = r.choice(['div', 'rem'])
            return ('bin', op, self.int_expr(scope, t, depth - 1), ('bin', 'or', self.int_expr(scope, t, depth - 1), ('int', 1, t)))
        if choice < 0.68:
            op = r.choice(['shl', 'shr'])
            return ('bin', op, self.int_expr(scope, t, depth - 1), ('bin', 'and', self.int_expr(scope, t, depth - 1), ('int', min(3, bits - 1), t)))
        if choice < 0.82:
            src = r.choice(INT_NAMES)
            return ('cast', t, self.int_expr(scope, src, depth - 1))
        if choice < 0.88 and signed:
            return ('neg', self.int_expr(scope, t, depth - 1))
        if choice < 0.92:
            return ('bnot', self.int_expr(scope, t, depth - 1))
        if choice < 0.96:
            return ('ifx', self.bool_expr(scope, depth - 1), self.int_expr(scope, t, depth - 1), self.int_expr(scope, t, depth - 1))
        # struct field / array element / helper call
        svars = self.vars_of(scope, ('struct', self.sname))
        fld = [f for f, ft in self.structs[self.sname] if ft == t]
        if svars and fld:
            return ('field', ('var', r.choice(svars)), r.choice(fld))
        avars = self.vars_of(scope, ('array', 3, t))
        if avars:
            return ('index', ('var', r.choice(avars)), ('cast', 'usize', ('bin', 'and', self.int_expr(scope, 'u8', depth - 1), ('int', 3, 'u8'))))
        hs = [h for h in self.helpers if h['ret'] == t]
        if hs:
            h = r.choice(hs)
            return ('call', h['name'], [self.bool_expr(scope, depth - 1) if p['ty'] == 'bool' else self.int_expr(scope, p['ty'], depth - 1) for p in h['params']])
        return ('var', r.choice(vs)) if vs else ('int', 4, t)

    def bool_expr(self, scope, depth):
        r = self.r
        c = r.random()
        bs = self.vars_of(scope, 'bool')
        if depth <= 0 or c < 0.15:
            if bs:
                return ('var', r.choice(bs))
            return ('bool', r.random() < 0.5)
        if c < 0.7:
            t = r.choice(INT_NAMES)
            return ('bin', r.choice(['lt', 'le', 'gt', 'ge', 'eq', 'ne']), self.int_expr(scope, t, depth - 1), self.int_expr(scope, t, depth - 1))
        if c < 0.85:
            return ('bin', r.choice(['land', 'lor']), self.bool_expr(scope, depth - 1), self.bool_expr(scope, depth - 1))
        if c < 0.93:
            return ('not', self.bool_expr(scope, depth - 1))
        ovars = [n for n, ty, m in scope if isinstance(ty, tuple) and ty[0] == 'opt']
        if ovars:
            n = r.choice(ovars)
            t = [ty for nn, ty, m in scope if nn == n][-1]
            return ('isvar', ('var', n), r.choice(['nil', t[1]]))
        return ('bool', True)

    def selfref_scenario(self, scope):
        """the right-hand side of an assignment is evaluated before the destination changes: a literal that reads the
        variable it is assigned to (swap / rotate) sees the old members"""
        r = self.r
        elem = r.choice([('struct', self.cname), ('struct', self.sname), 'u8', 'i32', 'i64', ('opt', 'i32')])
        shape = 'single' if (isinstance(elem, tuple) and elem[0] == 'struct' and r.random() < 0.5) else 'array'
        t = ('array', 3, elem) if shape == 'array' else elem
        x = self.fresh('x')
        out = [('let', x, t, self.value_of(scope, t), True)]
        if shape == 'array':
            perm = r.choice([(1, 0, 2), (2, 0, 1), (1, 2, 0), (0, 2, 1), (2, 1, 0)])
            out.append(('assign', ('var', x), ('array', elem, [('index', ('var', x), ('int', k, 'usize')) for k in perm])))
        else:
            fs = self.structs[elem[1]]
            rot = fs[1:] + fs[:1]
            out.append(('assign', ('var', x), ('struct', elem[1], [(f, ('cast', ft, ('field', ('var', x), g))) for (f, ft), (g, gt) in zip(fs, rot)])))
        # observe every scalar member
        for k in range(3 if shape == 'array' else 1):
            base = ('index', ('var', x), ('int', k, 'usize')) if shape == 'array' else ('var', x)
            if isinstance(elem, tuple) and elem[0] == 'struct':
                for f, ft in self.structs[elem[1]]:
                    out.append(('mark', ('field', base, f)))
            elif isinstance(elem, tuple) and elem[0] == 'opt':
                self.marks += 2
                out.append(('if', ('isvar', base, 'nil'), [('markc', 6000 + self.marks)], [('mark', ('unwrap', base))]))
            else:
                out.append(('mark', base))
        return ('block', None, out)

    def stmts(self, scope, depth, n, loops, labels, in_defer=False):
        r = self.r
        out = []
        scope = list(scope)
        for _ in range(n):
            c = r.random()
            if not in_defer and r.random() < 0.07:
                out.append(self.agg_scenario(scope) if r.random() < 0.6 else self.selfref_scenario(scope))
            elif c < 0.16:
                t = r.choice(INT_NAMES)
                name = self.fresh()
                mutable = r.random() < 0.6
                out.append(('let', name, t, self.int_expr(scope, t, 2), mutable)); scope.append((name, t, mutable))
            elif c < 0.20:
                name = self.fresh('s')
                out.append(('let', name, ('struct', self.sname), ('struct', self.sname, [(f, self.int_expr(scope, ft, 1)) for f, ft in self.structs[self.sname]]), True))
                scope.append((name, ('struct', self.sname), True))
            elif c < 0.24:
                t = r.choice(['u8', 'i32', 'i64'])
                name = self.fresh('a')
                out.append(('let', name, ('array', 3, t), ('array', t, [self.int_expr(scope, t, 1) for _ in range(3)]), True))
                scope.append((name, ('array', 3, t), True))
            elif c < 0.29:
                t = r.choice(['i32', 'u8', 'i64'])
                name = self.fresh('o')
                e = ('ifx', self.bool_expr(scope, 1), ('cast', ('opt', t), self.int_expr(scope, t, 1)), ('cast', ('opt', t), ('nil',)))
                # written with an annotated local instead of casts: `o : ?T = nil; if c { o = e; }`
                out.append(('let', name, ('opt', t), ('nil',), True)); scope.append((name, ('opt', t), True))
                out.append(('if', self.bool_expr(scope, 1), [('assign', ('var', name), self.int_expr(scope, t, 1))], None))
            elif c < 0.42:
                self.marks += 1
                t = r.choice(INT_NAMES)
                out.append(('mark', self.int_expr(scope, t, 2)))
            elif c < 0.52:
                muts = [(nm, ty) for nm, ty, m in scope if m]
                if muts:
                    nm, ty = r.choice(muts)
                    if isinstance(ty, str) and ty in INTS:
                        if r.random() < 0.5:
                            out.append(('assign', ('var', nm), self.int_expr(scope, ty, 2)))
                        else:
                            out.append(('opassign', ('var', nm), r.choice(['add', 'sub', 'mul', 'and', 'or']), self.int_expr(scope, ty, 1)))
                    elif isinstance(ty, tuple) and ty[0] == 'struct':
                        f, ft = r.choice(self.structs[self.sname])
                        out.append(('assign', ('field', ('var', nm), f), self.int_expr(scope, ft, 1)))
                    elif isinstance(ty, tuple) and ty[0] == 'array':
                        idx = ('cast', 'usize', ('bin', 'and', self.int_expr(scope, 'u8', 1), ('int', 3, 'u8')))
                        out.append(('assign', ('index', ('var', nm), idx), self.int_expr(scope, ty[2], 1)))
                    elif isinstance(ty, tuple) and ty[0] == 'opt':
                        out.append(('assign', ('var', nm), ('nil',) if r.random() < 0.3 else self.int_expr(scope, ty[1], 1)))
            elif c < 0.70 and depth > 0:
                els = self.stmts(scope, depth - 1, r.randint(1, 3), loops, labels) if r.random() < 0.5 else None
                out.append(('if', self.bool_expr(scope, 2), self.stmts(scope, depth - 1, r.randint(1, 3), loops, labels), els))
            elif c < 0.77 and depth > 0 and not in_defer:
                ctr = self.fresh('ctr')
                lab = None
                if r.random() < 0.4:
                    self.nlab += 1; lab = 'l%d' % self.nlab
                out.append(('let', ctr, 'u8', ('int', 0, 'u8'), True))
                body = [('opassign', ('var', ctr), 'add', ('int', 1, 'u8'))] + self.stmts(scope + [(ctr, 'u8', False)], depth - 1, r.randint(1, 3), loops + [lab], labels + ([lab] if lab else []))
                out.append(('while', ('bin', 'lt', ('var', ctr), ('int', r.randint(1, 2), 'u8')), body, lab))
                scope.append((ctr, 'u8', False))
            elif c < 0.82 and depth > 0 and not in_defer:
                self.nlab += 1; lab = 'b%d' % self.nlab
                out.append(('block', lab, self.stmts(scope, depth - 1, r.randint(1, 3), loops, labels + [lab])))
            elif c < 0.86 and not in_defer:
                self.marks += 1
                out.append(('defer', ('markc', 9000 + self.marks)))
            elif c < 0.92 and (loops or labels) and not in_defer:
                kinds = []
                if loops:
                    kinds += ['break', 'continue']
                if labels:
                    kinds += ['breaklab']
                kd = r.choice(kinds)
                st = {'break': ('break', None), 'continue': ('continue', None), 'breaklab': ('break', r.choice(labels) if labels else None)}[kd]
                out.append(('if', self.bool_expr(scope, 1), [st], None))
            elif c < 0.95:
                ovars = [(nm, ty) for nm, ty, m in scope if isinstance(ty, tuple) and ty[0] == 'opt']
                if ovars:
                    nm, ty = r.choice(ovars)
                    if r.random() < 0.5:
                        sw = self.fresh('w')
                        self.marks += 1
                        out.append(('switch', sw, ('var', nm), [(ty[1], [('mark', ('var', sw))]), ('nil' if r.random() < 0.5 else '_', [('markc', 8000 + self.marks)])]))
                    else:
                        self.marks += 1
                        out.append(('mark', ('unwrap', ('var', nm))))
            elif not in_defer and depth < 3 and r.random() < 0.5:
                out.append(('if', self.bool_expr(scope, 1), [('return', self.int_expr(scope, self.ret_ty, 1))], None))
        return out

    def function(self, name, nparams, depth, size):
        r = self.r
        params = []
        for i in range(nparams):
            t = r.choice(INT_NAMES + ['bool'])
            params.append({'name': 'p%d' % i, 'ty': t})
        self.ret_ty = r.choice(INT_NAMES)
        scope = [(p['name'], p['ty'], False) for p in params]
        body = self.stmts(scope, depth, size, [], [])
        # the tail may use every binding of the outermost scope
        for s in body:
            if s[0] == 'let':
                scope.append((s[1], s[2], s[4]))
        return {'name': name, 'params': params, 'ret': self.ret_ty, 'body': body, 'tail': self.int_expr(scope, self.ret_ty, 2)}


def gen_program(rnd, idx, tier):
    g = Gen(rnd, idx)
    h = g.function('h%d' % idx, rnd.randint(1, 2), 1, rnd.randint(1, 3))
    g.helpers.append(h)
    entry = g.function('e%d' % idx, rnd.randint(2, 4), 2 if tier == 'quick' else 3, rnd.randint(6, 11 if tier == 'quick' else 16))
    return {'structs': g.structs, 'funcs': [h, entry], 'entry': entry['name']}


def gen_agg_program(rnd, idx):
    """programs dedicated to value semantics and equality of aggregates (every element type with size < stride)"""
    g = Gen(rnd, idx)
    params = [{'name': 'p%d' % i, 'ty': rnd.choice(['u8', 'i32', 'u16', 'i64', 'bool'])} for i in range(rnd.randint(2, 3))]
    g.ret_ty = rnd.choice(['u8', 'i32', 'u64'])
    scope = [(p['name'], p['ty'], False) for p in params]
    body = [g.agg_scenario(scope) if rnd.random() < 0.6 else g.selfref_scenario(scope) for _ in range(rnd.randint(1, 2))]
    entry = {'name': 'e%d' % idx, 'params': params, 'ret': g.ret_ty, 'body': body, 'tail': g.int_expr(scope, g.ret_ty, 1)}
    return {'structs': g.structs, 'funcs': [entry], 'entry': entry['name']}


def program_src(p):
    lines = []
    for n, fields in p['structs'].items():
        lines.append('%s :: struct { %s };' % (n, ', '.join('%s: %s' % (f, refsem.ty_src(t)) for f, t in fields)))
    for f in p['funcs']:
        lines.append(refsem.func_src(f))
    return '\n'.join(lines) + '\n'


def clif_obs(p):
    marks = [a[0] for (n, a) in p.events if n == 'mark']
    if p.status == 'ret':
        return 'ret', marks, (p.ret[0] if p.ret else None)
    if p.status == 'exit':
        ok = z3.is_bv_value(z3.simplify(p.exit_code)) and z3.simplify(p.exit_code).as_long() == 1 and any(n == 'puts' for n, _ in p.events)
        return ('abort' if ok else 'bad-exit'), marks, None
    return p.status, marks, None


class _Budget(Exception):
    pass


def check_program(chk, prover, mod, prog, src, stats, data=None, prop='C01'):
    """one program under a wall-clock budget (symbolic execution of the CLIF, reference paths, pairwise comparison): a program
    that exceeds it is counted as undecided, never as passed"""
    import signal

    def on_alarm(sig, frm):
        raise _Budget()
    budget = 150 if chk.tier == 'quick' else 500
    old = signal.signal(signal.SIGALRM, on_alarm)
    signal.setitimer(signal.ITIMER_REAL, budget)
    try:
        return _check_program(chk, prover, mod, prog, src, stats, data=data, prop=prop)
    except _Budget:
        stats['undecided_solver_timeout'] = stats.get('undecided_solver_timeout', 0) + 1
        stats.setdefault('undecided_programs', []).append(prog['entry'])
        return None
    finally:
        signal.setitimer(signal.ITIMER_REAL, 0)
        signal.signal(signal.SIGALRM, old)


def _check_program(chk, prover, mod, prog, src, stats, data=None, prop='C01'):
    entry = [f for f in prog['funcs'] if f['name'] == prog['entry']][0]
    args = []; pre = []; refargs = []
    for p in entry['params']:
        t = p['ty']
        if t == 'bool':
            v = z3.BitVec(p['name'], 8); pre.append(z3.ULE(v, 1)); refargs.append(('b', v == 1))
        else:
            bits, signed = INTS[t]
            v = z3.BitVec(p['name'], bits); refargs.append(('i', bits, signed, v))
        args.append(v)
    eng = Engine(mod, event_funcs={'mark'}, max_visits=12 if chk.tier == 'quick' else 48, max_paths=MAX_PATHS * 2, data=data)
    st = State(); st.pc.extend(pre)
    try:
        cpaths = eng.run(mod.by_pretty(prog['entry']), args, st)
    except Unsupported as e:
        if 'path bound' in str(e):
            stats['skipped_too_many_paths'] += 1; return None
        raise Inconclusive('%s: %s' % (prog['entry'], e))
    chk.funcs_encoded.update(eng.funcs_run); chk.solver_s += eng.solver_s
    chk.cov['ir_instructions_executed'] = chk.cov.get('ir_instructions_executed', 0) + eng.steps_total
    if any(p.status == 'bound' for p in cpaths):
        # nested loops revisit a block more often than the unwinding bound allows: the program is set aside and counted
        stats['skipped_unwinding_bound'] = stats.get('skipped_unwinding_bound', 0) + 1; return None
    if len(cpaths) > MAX_PATHS:
        stats['skipped_too_many_paths'] += 1; return None
    try:
        it = refsem.Interp(prog)
        rpaths = it.paths(prog['entry'], refargs, pre)
    except refsem.RefError as e:
        stats['outside_reference_semantics'] += 1
        return None
    stats['clif_paths'] += len(cpaths); stats['ref_paths'] += len(rpaths)
    ret_bits, ret_signed = INTS[entry['ret']]
    import time
    deadline = time.time() + (120 if chk.tier == 'quick' else 400)
    for cp in cpaths:
        if time.time() > deadline:
            # a per-program time budget keeps one solver-hard program from dominating the run: counted as undecided
            stats['undecided_solver_timeout'] = stats.get('undecided_solver_timeout', 0) + 1
            stats.setdefault('undecided_programs', []).append(prog['entry'])
            return None
        cs, cm, cr = clif_obs(cp)
        # model-guided pairing: find a reference path that overlaps the rest of this CLIF path, compare, exclude, repeat
        s = z3.Solver(); s.set('timeout', 30000); s.add(*cp.pc)
        while True:
            r = s.check()
            if r == z3.unknown:
                # the solver did not decide a path condition within its time limit: the program is counted as undecided
                stats['undecided_solver_timeout'] = stats.get('undecided_solver_timeout', 0) + 1
                stats.setdefault('undecided_programs', []).append(prog['entry'])
                return None
            if r != z3.sat:
                break
            m = s.model()
            hit = None
            for rp in rpaths:
                if all(z3.is_true(m.eval(c, model_completion=True)) for c in rp[0]):
                    hit = rp; break
            if hit is None:
                raise Inconclusive(prog['entry'] + ': the reference paths do not cover an input of a CLIF path (reference interpreter incomplete)')
            rpc, rev, rres, rstatus = hit
            s.add(z3.Not(z3.And(*rpc)) if rpc else z3.BoolVal(False))
            stats['path_pairs'] += 1
            rm = [v for n, v in rev]
            if cs != rstatus or len(cm) != len(rm):
                goal = z3.BoolVal(False)
            else:
                conj = [a == b for a, b in zip(cm, rm)]
                if rstatus == 'ret':
                    conj.append(cr == rres[3])
                goal = z3.And(*conj) if conj else z3.BoolVal(True)
            res, model = prover.prove(list(cp.pc) + list(rpc), goal)
            if res == 'unsat':
                continue
            if res == 'unknown':
                # not decided within the solver's time limit: the program is counted as undecided (never as passed)
                stats['undecided_solver_timeout'] = stats.get('undecided_solver_timeout', 0) + 1
                stats.setdefault('undecided_programs', []).append(prog['entry'])
                return None
            vals = [model_val(model, a) for a in args]
            ev = lambda x: model.eval(x, model_completion=True).as_long()
            exp = {'status': rstatus, 'marks': [ev(v) for v in rm], 'result': ev(rres[3]) if rstatus == 'ret' else None}
            return reproduce(chk, src, prog, entry, vals, exp, prop)
    return True


def reproduce(chk, src, prog, entry, vals, exp, prop='C01'):
    nb = clifcheck.NativeBatch(prop, 'replay_' + entry['name'], src)
    nb.add(entry['name'], [(p['ty'], v) for p, v in zip(entry['params'], vals)], entry['ret'])
    res = nb.run()
    if res is None:
        chk.inconclusive_note('%s: replay program did not build' % entry['name']); return False
    if res[0] is None:
        nstatus = 'abort' if nb.last['rc'] == 1 else 'died(%s)' % nb.last['rc']
        nmarks = [int(l[1:], 16) for l in nb.partial.split('\n') if len(l) == 17 and l[0] == 'm']
        nres = None
    else:
        nstatus = 'ret'
        nmarks = [v[1] for v in res[0] if isinstance(v, tuple) and v[0] == 'mark']
        ints = [v for v in res[0] if isinstance(v, int)]
        nres = ints[0] & ((1 << INTS[entry['ret']][0]) - 1) if ints else None
    got = {'status': nstatus, 'marks': nmarks, 'result': nres}
    what = '%s(%s): the language semantics give %s, the built program gives %s' % (entry['name'], [hex(v) for v in vals], exp, got)
    if got == exp:
        chk.inconclusive_note('model did not reproduce natively: ' + what); return False
    key = {'kind': 'program-semantics', 'symptom': 'status' if got['status'] != exp['status'] else ('marks' if got['marks'] != exp['marks'] else 'result')}
    exp_out = ''.join('m%016x\n' % m for m in exp['marks']) + ('%016x\n;\n' % exp['result'] if exp['status'] == 'ret' else '')
    path = replaylib.make_native_replay(prop, entry['name'], nb.source(), exp_out if exp['status'] == 'ret' else None, 0 if exp['status'] == 'ret' else 1,
                                        nb.last['stdout'], nb.last['rc'], what, key, extra={'program': program_src(prog)})
    chk.report(key, what, path)
    return False


WRAPPER_TEMPLATES = [('i32', 'sext'), ('u8', 'zext'), ('u64', 'same'), ('i64', 'same'), ('usize', 'same'), ('i16', 'sext')]


def check_main_wrapper(chk, prover):
    """the C main returns the entry point's result cast to usize (0 for a void main)"""
    for t, how in WRAPPER_TEMPLATES + [(None, 'void')]:
        if t is None:
            src = 'eff :: () extern;\nmain :: () { eff(); }\n'
        else:
            src = 'srcv :: () -> %s extern;\nmain :: () -> %s { srcv() }\n' % (t, t)
        mod, out = clifcheck.compile_module('C01', 'wrapper', src)
        if mod is None:
            key = {'kind': 'rejected-well-typed', 'what': 'main returning %s' % t}
            chk.report(key, 'a program whose main returns %s is rejected' % t, replaylib.make_compile_replay('C01', 'wrapper_%s' % t, src, out, 'main returning %s rejected' % t, key))
            continue
        eng = Engine(mod, max_visits=4)
        st = State()
        argc = z3.BitVec('argc', 64); argv = z3.BitVec('argv', 64)
        try:
            paths = eng.run('main', [argc, argv], st)
        except Unsupported as e:
            raise Inconclusive('main wrapper: %s' % e)
        for p in paths:
            if p.status != 'ret':
                raise Inconclusive('main wrapper ended with ' + p.status)
            evs = [e for e in p.events if e[0] in ('srcv', 'eff')]
            if t is None:
                goal = p.ret[0] == 0
            else:
                # the value the extern returned is the fresh symbol the executor created for it
                rv = [v for v in z3.z3util.get_vars(p.ret[0])] if not z3.is_bv_value(p.ret[0]) else []
                if len(rv) != 1:
                    raise Inconclusive('main wrapper result does not depend on exactly the entry result')
                r = rv[0]; bits = r.size()
                want = z3.SignExt(64 - bits, r) if (INTS[t][1] and bits < 64) else (z3.ZeroExt(64 - bits, r) if bits < 64 else r)
                # the process exit status is the low 8 bits either way; the property asks for the cast to usize
                goal = z3.Extract(7, 0, p.ret[0]) == z3.Extract(7, 0, want)
            res, model = prover.prove(list(p.pc), goal)
            if res != 'unsat':
                key = {'kind': 'main-wrapper', 'type': str(t)}
                chk.report(key, 'the C main wrapper does not return main\'s %s result (cast to usize)' % t, replaylib.make_compile_replay('C01', 'wrapper_%s' % t, src, out, 'wrapper', key))


def run(chk, tier, seed):
    common.build_capy()
    rnd = random.Random(seed)
    nprog = 40 if tier == 'quick' else 160
    progs = [gen_program(rnd, i, tier) for i in range(nprog)]
    progs += [gen_agg_program(rnd, nprog + i) for i in range(12 if tier == 'quick' else 60)]
    prover = Prover(chk, timeout_ms=60000)
    stats = {'clif_paths': 0, 'ref_paths': 0, 'path_pairs': 0, 'skipped_too_many_paths': 0, 'outside_reference_semantics': 0, 'rejected': 0}
    # compile in groups; a rejected group is bisected to the offending program
    pending = list(progs)
    checked = 0; bad = 0
    group = 10
    while pending:
        batch, pending = pending[:group], pending[group:]
        src = clifcheck.PRELUDE + ''.join(program_src(p) for p in batch)
        refs = 'refs :: () {\n' + '\n'.join('    r%d := %s;' % (i, p['entry']) for i, p in enumerate(batch)) + '\n}\n'
        mod, out = clifcheck.compile_module('C01', 'progs', src + refs + 'main :: () { refs(); }\n')
        if mod is None:
            if len(batch) > 1:
                pending = [b for b in batch] + pending
                group = max(1, len(batch) // 2)
                continue
            p = batch[0]
            stats['rejected'] += 1; bad += 1
            first = [l for l in out.splitlines() if l.startswith('error') or 'panicked' in l][:1]
            key = {'kind': 'rejected-well-typed', 'what': (first[0][:60] if first else 'compiler failed')}
            what = 'a well-typed generated program is not compiled: %s' % (first[0][:200] if first else out[-200:])
            chk.report(key, what, replaylib.make_compile_replay('C01', 'rejected_' + p['entry'], src + refs + 'main :: () { refs(); }\n', out, what, key))
            group = 10
            continue
        chk.opcodes.update(mod.opcodes)
        for p in batch:
            r = check_program(chk, prover, mod, p, src, stats)
            if r is not None:
                checked += 1
                if r is False:
                    bad += 1
                chk.sample({'program': program_src(p), 'verdict': 'agrees with the reference semantics on every path pair' if r else 'counterexample'}, limit=3)
        if group < 10:
            group = 10
    check_main_wrapper(chk, prover)
    # acceptance corpus: the control-flow programs of the C03 generator (defer / break / continue / return / .try in
    # void, ?u64 and ?void functions, ?void value blocks, value-less exits) are well-typed by construction; each must be built
    from props import c03
    corpus = [(n, c03.emit(n, b, c, w)) for n, b, c, w in c03.generate(tier, seed)]
    _, _, built, notbuilt = clifcheck.compile_programs('C01', 'corpus', clifcheck.PRELUDE + c03.OPT_HELPER, corpus)
    for n, text, out in notbuilt:
        first = [l for l in out.splitlines() if l.startswith('error') or 'panicked' in l or 'Error defining' in l or 'mismatched' in l][:2]
        msg = ' / '.join(x.strip() for x in first)[:200] if first else 'compiler failed'
        valueless = ('return;' in text and '-> ?void' in text) or any(l.strip().startswith('break `v') and 'nil' not in l for l in text.splitlines())
        key = {'kind': 'rejected-well-typed', 'what': 'control-flow corpus', 'shape': 'value-less exit from a ?void function or block' if valueless else 'other'}
        # role of a compiler panic: its message without the location prefix (`file::lambda#f #18 : `)
        pl = [i for i, l in enumerate(out.splitlines()) if 'panicked at' in l]
        if pl:
            nxt = (out.splitlines() + [''])[pl[0] + 1]
            key['panic'] = nxt.split(' : ', 1)[-1].strip()[:120]
            if 'is not weak replaceable by' in key['panic'] and '?void' in key['panic']:
                key['shape'] = '`?void` local initialised from a block that yields void, followed by a defer in the same loop body'
        if 'timed out' in out[-200:]:
            key['shape'] = 'compiler does not terminate'
        what = 'a well-typed control-flow program is not compiled (%s): %s' % (key['shape'], msg)
        full = clifcheck.PRELUDE + c03.OPT_HELPER + text + 'main :: () { p := %s; }\n' % n
        chk.report(key, what, replaylib.make_compile_replay('C01', 'corpus_' + n, full, out, what, key)); bad += 1
    stats['acceptance_corpus'] = len(corpus); stats['acceptance_corpus_built'] = len(built)
    chk.cov.update({'programs': checked, 'disagreements_checked': bad, 'generated_programs': nprog, 'explanation': 'programs = generated entry functions compared with the reference semantics on every jointly feasible (CLIF path, reference path) pair, for all parameter values'})
    chk.cov.update(stats)
    chk.bounds.update({'statements_per_function': '<= %d at the top level, nesting depth <= %d' % (11 if tier == 'quick' else 16, 2 if tier == 'quick' else 3), 'loop_iterations': '<= 2', 'parameters': '1..4 scalars (all values)',
                       'paths_per_program': '<= %d (larger programs are skipped and counted)' % MAX_PATHS,
                       'outside_claim': ['str/any/type values, printing through core', 'float arithmetic', 'comptime', 'error unions and .try, enums with payloads (covered by C02/C03/C10/C11)',
                                         'slices, pointers to locals, varargs, globals', 'division by zero / MIN/-1 / shift >= width (not generated)']})
    chk.assumptions.extend(['reference semantics lib/refsem.py is written from README.md', 'generated programs are well-typed by construction', 'Cranelift opcode semantics as documented'])
    if stats.get('undecided_solver_timeout', 0) * 10 > nprog:
        chk.inconclusive_note('%d of %d programs were not decided within the solver time limit' % (stats['undecided_solver_timeout'], nprog))
    if checked < nprog // 2:
        chk.inconclusive_note('only %d of %d generated programs could be compared (%s)' % (checked, nprog, stats))


def replay(path):
    return replaylib.run_replay(path)
