"""C02 — writing one value never changes any other value.

Engine B, direct specification (DESIGN.md section 5, C02). Templates write one value of every write kind into an
object that sits inside a buffer of symbolic bytes (16 guard bytes on each side, other fields around it); z3
proves, for ALL written values and ALL initial buffer contents, that
  (i) every byte outside the written value's extent is unchanged (frame condition),
 (ii) the written value reads back (its documented encoding is in place),
(iii) sources of copies are unchanged, by-value arguments/returns arrive intact and stay independent,
 (iv) no store leaves the regions that are live (wild write).
Counterexamples are replayed natively (the object is placed in the middle of a [n]u64 local whose words are
printed after the call).
"""
import random
import z3

from lib import common, clifcheck, replay as replaylib
from lib.capyty import S, Struct, Enum, Opt, Err, Array, Ptr, Scalar
from lib.common import Inconclusive
from lib.clifcheck import Prover, model_val
from engine.clifsym import State, Engine, Unsupported

LEVEL = 'translation_validation'
BV = z3.BitVecVal


# ---- types used by the templates -------------------------------------------------------------------

E1 = Enum('E1', [('A', S('i32'), None), ('B', S('u8'), None), ('C', None, None)])
E2 = Enum('E2', [('A', S('i64'), None), ('B', None, 7), ('C', Array(3, S('u8')), None)])
E3 = Enum('E3', [('A', S('u8'), 3), ('B', None, None)])
IN = Struct('In', [('x', S('u8')), ('y', S('i32'))])
RE = Struct('Re', [('y', S('i32')), ('x', S('u8'))])
DECLS = [E1, E2, E3, IN, RE]

FIELD_POOL = [S('u8'), S('u16'), S('i32'), S('i64'), S('f32'), S('f64'), E1, E2, E3, Opt(S('u8')), Opt(S('i32')), Opt(S('i64')),
              Err(S('bool'), S('i32')), Err(S('bool'), S('i64')), Array(3, S('u8')), Array(2, S('i32')), IN,
              Opt(Ptr(S('i32')))]


from lib.memob import Ob, Ctx, frame, bytes_eq, setup, check_ob, GUARD_WORDS


# ---- obligation generators -------------------------------------------------------------------------

def sc_bits(t):
    return t.bits()


def value_writes(fty, lhs, off, idx):
    """write kinds for a destination expression `lhs` of type fty located at byte offset off of buffer 0.
    yields (tag, extra params, statement, post builder(ctx, extra arg values) -> (modifies, [(label, goal)]))"""
    out = []
    k = fty.kind
    if k == 'scalar':
        def post(ctx, xs, off=off, fty=fty):
            return [(off, fty.size())], [('stored value reads back', bytes_eq(ctx, ctx.bufs[0], off, xs[0]))]
        out.append(('scalar', [('scalar', fty.name)], '%s = x0;' % lhs, post))
    elif k == 'enum':
        discs = fty.discriminants()
        for (vn, pay, _), d in zip(fty.variants, discs):
            if pay is None:
                def post(ctx, xs, off=off, fty=fty, d=d):
                    return [(off, fty.size())], [('tag is the variant\'s discriminant', bytes_eq(ctx, ctx.bufs[0], off + fty.tag_offset(), BV(d, 8)))]
                out.append(('variant-%s-nopayload' % vn, [], '%s = %s.%s;' % (lhs, fty.name, vn), post))
            elif pay.kind == 'scalar':
                def post(ctx, xs, off=off, fty=fty, d=d, pay=pay):
                    return [(off, fty.size())], [('payload reads back', bytes_eq(ctx, ctx.bufs[0], off, xs[0])),
                                                 ('tag is the variant\'s discriminant', bytes_eq(ctx, ctx.bufs[0], off + fty.tag_offset(), BV(d, 8)))]
                out.append(('variant-%s-%s' % (vn, pay.name), [('scalar', pay.name)], '%s = %s.%s.(x0);' % (lhs, fty.name, vn), post))
            else:   # array payload given through a pointer
                def post(ctx, xs, off=off, fty=fty, d=d, pay=pay):
                    src = ctx.bufs[1]
                    return [(off, fty.size())], [('payload bytes are the source bytes', ctx.final_bytes(ctx.bufs[0], off, pay.size()) == ctx.init_bytes(src, 0, pay.size())),
                                                 ('tag is the variant\'s discriminant', bytes_eq(ctx, ctx.bufs[0], off + fty.tag_offset(), BV(d, 8))),
                                                 ('source unchanged', frame(ctx, src, []))]
                out.append(('variant-%s-aggregate' % vn, [('buf', pay, False)], '%s = %s.%s.(q1^);' % (lhs, fty.name, vn), post))
    elif k == 'opt' and fty.sub.kind == 'ptr':
        def post_nil(ctx, xs, off=off):
            return [(off, 8)], [('nil pointer-optional is the null word', bytes_eq(ctx, ctx.bufs[0], off, BV(0, 64)))]
        out.append(('nil-ptr-optional', [], '%s = nil;' % lhs, post_nil))
    elif k == 'opt':
        def post_some(ctx, xs, off=off, fty=fty):
            return [(off, fty.size())], [('payload reads back', bytes_eq(ctx, ctx.bufs[0], off, xs[0])),
                                         ('tag says present', bytes_eq(ctx, ctx.bufs[0], off + fty.tag_offset(), BV(1, 8)))]

        def post_nil(ctx, xs, off=off, fty=fty):
            return [(off, fty.size())], [('tag says nil', bytes_eq(ctx, ctx.bufs[0], off + fty.tag_offset(), BV(0, 8)))]
        out.append(('payload->optional', [('scalar', fty.sub.name)], '%s = x0;' % lhs, post_some))
        out.append(('nil->optional', [], '%s = nil;' % lhs, post_nil))
    elif k == 'err':
        def post_ok(ctx, xs, off=off, fty=fty):
            return [(off, fty.size())], [('payload reads back', bytes_eq(ctx, ctx.bufs[0], off, xs[0])),
                                         ('tag says ok', bytes_eq(ctx, ctx.bufs[0], off + fty.tag_offset(), BV(1, 8)))]

        def post_err(ctx, xs, off=off, fty=fty):
            return [(off, fty.size())], [('error value reads back', bytes_eq(ctx, ctx.bufs[0], off, xs[0])),
                                         ('tag says error', bytes_eq(ctx, ctx.bufs[0], off + fty.tag_offset(), BV(0, 8)))]
        out.append(('payload->error-union', [('scalar', fty.ok.name)], '%s = x0;' % lhs, post_ok))
        out.append(('error->error-union', [('scalar', fty.err.name)], '%s = x0;' % lhs, post_err))
    elif k == 'array':
        st = fty.sub.stride(); es = fty.sub.size()

        def post_elem(ctx, xs, off=off, fty=fty, st=st, es=es):
            i, x = xs
            goals = []
            # element i holds x; every other array byte unchanged
            for j in range(fty.n):
                goals.append(z3.Implies(i == j, bytes_eq(ctx, ctx.bufs[0], off + j * st, x)))
            others = []
            for b in range(fty.size()):
                j = b // st
                inside = (b - j * st) < es
                others.append(z3.Or(z3.And(i == j, z3.BoolVal(inside)), ctx.unchanged(ctx.bufs[0], off + b)))
            return [(off, fty.size())], [('element reads back', z3.And(*goals)), ('other elements unchanged', z3.And(*others))]
        out.append(('array-element', [('scalar', 'usize'), ('scalar', fty.sub.name)], '%s[x0] = x1;' % lhs, post_elem))
    # whole-value assignment from another object (all aggregate kinds and scalars)
    if k != 'scalar' and not (k == 'opt' and fty.sub.kind == 'ptr'):
        def post_copy(ctx, xs, off=off, fty=fty):
            src = ctx.bufs[1]
            goals = [('source unchanged', frame(ctx, src, []))]
            for (o, n) in value_bytes(fty):
                goals.append(('copied bytes equal the source', ctx.final_bytes(ctx.bufs[0], off + o, n) == ctx.init_bytes(src, o, n)))
            return [(off, fty.size())], goals
        out.append(('whole-value-copy', [('buf', fty, False)], '%s = q1^;' % lhs, post_copy))
    if fty is IN:
        def post_cast(ctx, xs, off=off):
            src = ctx.bufs[1]
            return [(off, IN.size())], [('x copied from the reordered source', ctx.final_bytes(ctx.bufs[0], off + 0, 1) == ctx.init_bytes(src, 4, 1)),
                                        ('y copied from the reordered source', ctx.final_bytes(ctx.bufs[0], off + 4, 4) == ctx.init_bytes(src, 0, 4)),
                                        ('source unchanged', frame(ctx, src, []))]
        out.append(('struct-cast-reordered', [('buf', RE, False)], '%s = In.(q1^);' % lhs, post_cast))

        def post_default(ctx, xs, off=off):
            return [(off, IN.size())], [('default value is zero', z3.And(bytes_eq(ctx, ctx.bufs[0], off, BV(0, 8)), bytes_eq(ctx, ctx.bufs[0], off + 4, BV(0, 32))))]
        out.append(('default-init', [], 'd : In; %s = d;' % lhs, post_default))
    return out


def value_bytes(t):
    """[(offset, n)] byte ranges of a type that carry value (padding excluded; sum-type payload bytes included)"""
    if t.kind == 'struct':
        offs, _ = t.offsets()
        res = []
        for (n, ft), o in zip(t.fields, offs):
            res += [(o + a, b) for a, b in value_bytes(ft)]
        return res
    if t.kind == 'array':
        res = []
        for j in range(t.n):
            res += [(j * t.sub.stride() + a, b) for a, b in value_bytes(t.sub)]
        return res
    return [(0, t.size())]


def gen_structs(rnd, n):
    res = []
    for i in range(n):
        k = rnd.randint(1, 3)
        fields = [('g0', S(rnd.choice(['u8', 'u8', 'u64'])))]
        for j in range(k):
            fields.append(('f%d' % j, rnd.choice(FIELD_POOL)))
            fields.append(('g%d' % (j + 1), S(rnd.choice(['u8', 'u8', 'u16', 'u64']))))
        res.append(Struct('S%d' % i, fields))
    return res


def curated_structs():
    res = []
    for i, ft in enumerate(FIELD_POOL):
        res.append(Struct('K%d' % i, [('g0', S('u8')), ('f0', ft), ('g1', S('u8')), ('g2', S('u64'))]))
    return res


def gen_obligations(structs):
    obs = []
    for st in structs:
        offs, _ = st.offsets()
        for (fname, fty), off in zip(st.fields, offs):
            if not fname.startswith('f'):
                continue
            for tag, extra, stmt, post in value_writes(fty, 'p.' + fname, off, 0):
                name = 'w_%s_%s_%s' % (st.name, fname, tag.replace('-', '_').replace('>', ''))
                params = [('buf', st, True)] + extra
                sig = ['p: ^mut %s' % st.name]
                si = 0
                for j, e in enumerate(extra):
                    if e[0] == 'scalar':
                        sig.append('x%d: %s' % (si, e[1])); si += 1
                    else:
                        sig.append('q1: ^%s' % e[1].src())
                src = '%s :: (%s) { %s }' % (name, ', '.join(sig), stmt)

                def mk(post=post, st=st):
                    def f(ctx, xs):
                        mods, goals = post(ctx, xs)
                        return [('bytes outside the written value are unchanged', frame(ctx, ctx.bufs[0], mods))] + goals
                    return f
                pre = None
                obs.append(Ob(name, src, params, None, mk(), {'kind': 'field-write', 'write': tag.split('-')[0] if tag.startswith('variant') else tag,
                                                             'dest': fty.kind, 'dest_type': fty.src()}))
                if tag == 'array-element':
                    obs[-1].pre = (lambda n_: lambda xs: [z3.ULT(xs[0], n_)])(fty.n)
    return obs


def local_obligations():
    """writes into locals next to other locals: the neighbours are read back and must be intact"""
    obs = []
    U = 'u64'

    def ret_is_g(ctx, xs):
        return [('neighbouring locals keep their value', ctx.path.ret[0] == xs[-1])]
    progs = [
        ('loc_variant_enum', 'x0: i32, g: u64', [('scalar', 'i32'), ('scalar', U)],
         'g1 := g; e : E1 = E1.C; g2 := g; e = E1.A.(x0); if #is_variant(e, E1.A) { g1 ~ g2 ~ g } else { 0 }', 'variant'),
        ('loc_variant_enum_init', 'x0: i32, g: u64', [('scalar', 'i32'), ('scalar', U)],
         'g1 := g; e : E1 = E1.A.(x0); g2 := g; if #is_variant(e, E1.A) { g1 ~ g2 ~ g } else { 0 }', 'variant'),
        ('loc_variant_enum_small', 'x0: u8, g: u64', [('scalar', 'u8'), ('scalar', U)],
         'g1 := g; e : E3 = E3.A.(x0); g2 := g; e = E3.B; e = E3.A.(x0); g1 ~ g2 ~ g', 'variant'),
        ('loc_variant_enum_big', 'x0: i64, g: u64', [('scalar', 'i64'), ('scalar', U)],
         'g1 := g; e : E2 = E2.B; g2 := g; e = E2.A.(x0); g1 ~ g2 ~ g', 'variant'),
        ('loc_optional', 'x0: i32, g: u64', [('scalar', 'i32'), ('scalar', U)],
         'g1 := g; o : ?i32 = nil; g2 := g; o = x0; o = nil; o = x0; g1 ~ g2 ~ g', 'payload->optional'),
        ('loc_optional_u8', 'x0: u8, g: u64', [('scalar', 'u8'), ('scalar', U)],
         'g1 := g; o : ?u8 = x0; g2 := g; o = nil; g1 ~ g2 ~ g', 'payload->optional'),
        ('loc_error_union', 'x0: i32, g: u64', [('scalar', 'i32'), ('scalar', U)],
         'g1 := g; r : bool!i32 = x0; g2 := g; r = true; r = x0; g1 ~ g2 ~ g', 'payload->error-union'),
        ('loc_default_struct', 'g: u64', [('scalar', U)],
         'g1 := g; d : In; g2 := g; d2 : Re; g3 := g; g1 ~ g2 ~ g3', 'default-init'),
        ('loc_default_array', 'g: u64', [('scalar', U)],
         'g1 := g; d : [3]u8; g2 := g; d2 : [5]u16; g3 := g; d3 : [3]i32; g4 := g; g1 ~ g2 ~ g3 ~ g4 ~ g', 'default-init'),
        ('loc_default_enumish', 'g: u64', [('scalar', U)],
         'g1 := g; d : ?i32; g2 := g; d2 : ?u8; g3 := g; g1 ~ g2 ~ g3', 'default-init'),
        ('loc_struct_cast', 'a: i32, b: u8, g: u64', [('scalar', 'i32'), ('scalar', 'u8'), ('scalar', U)],
         'g1 := g; r := Re.{ y = a, x = b }; g2 := g; s := In.(r); g3 := g; if s.y == a && s.x == b { g1 ~ g2 ~ g3 } else { 0 }', 'struct-cast-reordered'),
        ('loc_array_cast', 'a: u8, b: u8, g: u64', [('scalar', 'u8'), ('scalar', 'u8'), ('scalar', U)],
         'g1 := g; r := u8.[a, b, a]; g2 := g; s := [3]u16.(r); g3 := g; if s[0] == u16.(a) && s[1] == u16.(b) && s[2] == u16.(a) { g1 ~ g2 ~ g3 } else { 0 }', 'array-cast'),
        ('loc_copy_independent', 'a: i32, b: i32, g: u64', [('scalar', 'i32'), ('scalar', 'i32'), ('scalar', U)],
         's := In.{ x = 1, y = a }; t := s; t.y = b; u := s; if s.y == a && t.y == b && u.y == a { g } else { 0 }', 'copy'),
        ('loc_array_copy_independent', 'a: u8, b: u8, g: u64', [('scalar', 'u8'), ('scalar', 'u8'), ('scalar', U)],
         's := u8.[a, a, a]; t := s; t[1] = b; if s[1] == a && t[1] == b && t[0] == a { g } else { 0 }', 'copy'),
    ]
    for name, sig, params, body, wk in progs:
        src = '%s :: (%s) -> u64 { %s }' % (name, sig, body)
        obs.append(Ob(name, src, params, 'u64', ret_is_g, {'kind': 'local-write', 'write': wk, 'fn': name}))
    return obs


def literal_obligations():
    """aggregate VALUES stored into a field of a struct literal / an item of an array literal that is built in a local,
    with the fields listed out of declaration order (so a neighbour written earlier must survive the later store)"""
    obs = []; decls = []
    aggs = [Array(3, S('u8')), Array(5, S('u8')), Array(7, S('u8')), Opt(S('u16')), Opt(S('i32')), Opt(S('u32')), Struct('Q6', [('x', S('u32')), ('y', S('u16'))]),
            Struct('Q3', [('x', S('u16')), ('y', S('u8'))]), E1, E3, Err(S('bool'), S('i32')), IN, Opt(S('i64')), Array(2, S('i32'))]
    for a in aggs:
        if isinstance(a, Struct) and a.name in ('Q6', 'Q3'):
            decls.append(a)
    for i, a in enumerate(aggs):
        L = Struct('L%d' % i, [('f', a), ('g', S('u8')), ('h', S('u16')), ('k', S('u64'))])
        decls.append(L)
        offs, _ = L.offsets()
        for oi, order in enumerate((['k', 'h', 'g', 'f'], ['g', 'f', 'h', 'k'], ['f', 'g', 'h', 'k'])):
            name = 'lit_%d_%d' % (i, oi)
            inits = {'f': 'q^', 'g': 'g', 'h': 'h', 'k': 'k'}
            src = '%s :: (q: ^%s, g: u8, h: u16, k: u64, out: ^mut %s) { o := %s.{ %s }; out^ = o; }' % (
                name, a.src(), L.name, L.name, ', '.join('%s = %s' % (n, inits[n]) for n in order))

            def post(ctx, xs, a=a, L=L, offs=offs):
                src_b, out_b = ctx.bufs
                goals = [('source unchanged', frame(ctx, src_b, [])), ('nothing outside the destination changed', frame(ctx, out_b, [(0, L.size())]))]
                for (o, n) in value_bytes(a):
                    goals.append(('the aggregate field holds the source value', ctx.final_bytes(out_b, offs[0] + o, n) == ctx.init_bytes(src_b, o, n)))
                goals.append(('the field after the aggregate keeps its value', bytes_eq(ctx, out_b, offs[1], xs[0])))
                goals.append(('the other fields keep their values', z3.And(bytes_eq(ctx, out_b, offs[2], xs[1]), bytes_eq(ctx, out_b, offs[3], xs[2]))))
                return goals
            obs.append(Ob(name, src, [('buf', a, False), ('scalar', 'u8'), ('scalar', 'u16'), ('scalar', 'u64'), ('buf', L, True)], None, post,
                          {'kind': 'literal-field-store', 'agg': a.src(), 'size_mod_8': a.size() % 8}))
        # array literal of two aggregate items followed by a local that must survive
        name = 'alit_%d' % i
        src = ('%s :: (q: ^%s, r: ^%s, g: u64, out: ^mut [2]%s) -> u64 { g1 := g; arr := %s.[q^, r^]; g2 := g; out^ = arr; g1 ~ g2 ~ g }'
               % (name, a.src(), a.src(), a.src(), a.src()))

        def apost(ctx, xs, a=a):
            q_b, r_b, out_b = ctx.bufs
            st = a.stride()
            goals = [('neighbouring locals keep their value', ctx.ret == xs[0]), ('sources unchanged', z3.And(frame(ctx, q_b, []), frame(ctx, r_b, []))),
                     ('nothing outside the destination changed', frame(ctx, out_b, [(0, 2 * st)]))]
            for (o, n) in value_bytes(a):
                goals.append(('item 0 holds the first source', ctx.final_bytes(out_b, o, n) == ctx.init_bytes(q_b, o, n)))
                goals.append(('item 1 holds the second source', ctx.final_bytes(out_b, st + o, n) == ctx.init_bytes(r_b, o, n)))
            return goals
        obs.append(Ob(name, src, [('buf', a, False), ('buf', a, False), ('scalar', 'u64'), ('buf', Array(2, a), True)], 'u64', apost,
                      {'kind': 'array-literal-item-store', 'agg': a.src(), 'size_mod_8': a.size() % 8}))
    return obs, decls


def compound_assign_obligations():
    """`dest op= value` where the value's type is as wide as, narrower than or WIDER than the destination: whatever the
    compiler accepts, the store covers exactly the destination's bytes. The wider-value forms may be rejected by the
    type checker (then there is nothing to check): they are marked may_be_rejected."""
    obs = []; decls = []
    dts = ['u8', 'i8', 'u16', 'i32']
    vts = ['u8', 'u16', 'i32', 'u64', 'i64']
    for dt in dts:
        d = S(dt)
        st = Struct('CA_%s' % dt, [('a', d), ('b', S('u8')), ('c', S('u8')), ('d', S('u8')), ('e', S('u64'))])
        decls.append(st)
        for vt in vts:
            v = S(vt)
            if d.signed() != v.signed() and not (not v.signed() and d.signed() and d.size() > v.size()):
                continue        # mixed signs are rejected as operands anyway unless the unsigned one is strictly narrower
            wider = v.size() > d.size()
            for on, o in (('add', '+'), ('mul', '*'), ('and', '&')):
                name = 'caf_%s_%s_%s' % (dt, vt, on)
                src = '%s :: (p: ^mut %s, w: %s) { p.a %s= w; }' % (name, st.name, vt, o)

                def post(ctx, xs, d=d):
                    return [('only the destination field changes', frame(ctx, ctx.bufs[0], [(0, d.size())]))]
                ob = Ob(name, src, [('buf', st, True), ('scalar', vt)], None, post, {'kind': 'compound-assign-field', 'dest': dt, 'value': vt, 'wider_value': wider})
                ob.may_be_rejected = wider
                obs.append(ob)
                name = 'cae_%s_%s_%s' % (dt, vt, on)
                arr = Array(4, d)
                src = '%s :: (p: ^mut %s, w: %s) { p[1] %s= w; }' % (name, arr.src(), vt, o)

                def apost(ctx, xs, d=d):
                    return [('only the destination element changes', frame(ctx, ctx.bufs[0], [(d.size(), d.size())]))]
                ob = Ob(name, src, [('buf', arr, True), ('scalar', vt)], None, apost, {'kind': 'compound-assign-element', 'dest': dt, 'value': vt, 'wider_value': wider})
                ob.may_be_rejected = wider
                obs.append(ob)
    return obs, decls


def copy_independence_obligations():
    """'Aggregates are copied on assignment, so mutating one copy is never visible through another copy': a binding made
    from `p^` keeps the value it was made from when the pointee is overwritten afterwards through a second pointer"""
    obs = []; decls = []
    q6 = Struct('CI6', [('x', S('u32')), ('y', S('u16'))]); acc = Struct('CI24', [('id', S('i64')), ('bal', S('i64')), ('lim', S('i64'))])
    decls += [q6, acc]
    aggs = [q6, acc, Array(3, S('u8')), Array(2, S('i64')), Opt(S('i32')), Opt(S('i64')), E1, Err(S('bool'), S('i32'))]
    forms = [('imm', 'b :: p^;'), ('immparen', 'b :: (p^);'), ('mut', 'b := p^;'), ('ann', 'b : %(T)s = p^;'), ('immann', 'b : %(T)s : p^;'), ('two', 'c :: p^; b :: c;')]
    for i, a in enumerate(aggs):
        for pk, pty in (('ip', '^'), ('mp', '^mut ')):
            for fn, form in forms:
                name = 'ci_%d_%s_%s' % (i, pk, fn)
                src = '%s :: (p: %s%s, q: ^mut %s, r: ^%s, out: ^mut %s) { %s q^ = r^; out^ = b; }' % (name, pty, a.src(), a.src(), a.src(), a.src(), form % {'T': a.src()})

                def post(ctx, xs, a=a):
                    src_b, r_b, out_b = ctx.bufs
                    goals = [('nothing outside the destinations changed', z3.And(frame(ctx, src_b, [(0, a.size())]), frame(ctx, r_b, []), frame(ctx, out_b, [(0, a.size())])))]
                    for (o, n) in value_bytes(a):
                        goals.append(('the binding still holds the value it was made from', ctx.final_bytes(out_b, o, n) == ctx.init_bytes(src_b, o, n)))
                        goals.append(('the pointee holds the newly stored value', ctx.final_bytes(src_b, o, n) == ctx.init_bytes(r_b, o, n)))
                    return goals
                obs.append(Ob(name, src, [('buf', a, True), ('alias', 0), ('buf', a, False), ('buf', a, True)], None, post,
                              {'kind': 'copy-independence', 'agg': a.src(), 'binding': fn, 'pointer': 'immutable' if pk == 'ip' else 'mutable'}))
    return obs, decls


def alias_literal_obligations():
    """the right-hand side of an assignment is complete before a byte of the destination changes, also when the literal
    reads the destination through a pointer instead of by its name"""
    obs = []; decls = []
    pair = Struct('AL2', [('x', S('i32')), ('y', S('i32'))])
    inner = Struct('ALI', [('a', S('i64')), ('b', S('i64'))]); outer = Struct('ALO', [('k', S('u8')), ('inner', inner), ('t', S('u8'))])
    decls += [pair, inner, outer]
    arr = Array(3, S('i64'))

    def swapped(ctx, out_b, src_b, moves, ty):
        goals = [('nothing outside the destination changed', z3.And(frame(ctx, src_b, []), frame(ctx, out_b, [(0, ty.size())])))]
        for (do, so, n) in moves:
            goals.append(('member at %d holds the OLD member at %d' % (do, so), ctx.final_bytes(out_b, do, n) == ctx.init_bytes(src_b, so, n)))
        return goals
    cases = [
        ('al_pair', pair, 'p := src^; q := ^p; p = AL2.{ x = q.y, y = q.x }; out^ = p;', [(0, 4, 4), (4, 0, 4)]),
        ('al_pair_mut', pair, 'p := src^; q := ^mut p; p = AL2.{ x = q.y, y = q.x }; out^ = p;', [(0, 4, 4), (4, 0, 4)]),
        ('al_arr', arr, 'a := src^; pa := ^a; a = i64.[pa[2], pa[0], pa[1]]; out^ = a;', [(0, 16, 8), (8, 0, 8), (16, 8, 8)]),
        ('al_nested', outer, 'o := src^; po := ^mut o; po.inner = ALI.{ a = o.inner.b, b = o.inner.a }; out^ = o;',
         [(outer.field('inner')[1], outer.field('inner')[1] + 8, 8), (outer.field('inner')[1] + 8, outer.field('inner')[1], 8), (0, 0, 1)]),
        ('al_nested_ptr', outer, 'o := src^; po := ^o; o.inner = ALI.{ a = po.inner.b, b = po.inner.a }; out^ = o;',
         [(outer.field('inner')[1], outer.field('inner')[1] + 8, 8), (outer.field('inner')[1] + 8, outer.field('inner')[1], 8)]),
    ]
    for name, ty, body, moves in cases:
        src = '%s :: (src: ^%s, out: ^mut %s) { %s }' % (name, ty.src(), ty.src(), body)

        def post(ctx, xs, moves=moves, ty=ty):
            src_b, out_b = ctx.bufs
            return swapped(ctx, out_b, src_b, moves, ty)
        obs.append(Ob(name, src, [('buf', ty, False), ('buf', ty, True)], None, post, {'kind': 'literal-reads-destination-through-alias', 'agg': ty.src()}))
    return obs, decls


def abi_obligations(sizes, rnd):
    """struct arguments and returns of each size: bytes arrive intact, caller's copy is independent, neighbours untouched"""
    obs = []; decls = []
    shapes = {}
    for n in sizes:
        shapes['B%d' % n] = Struct('B%d' % n, [('a', Array(n, S('u8')))])
    mixed = [Struct('M5', [('a', S('i32')), ('b', S('u8'))]), Struct('M9', [('a', S('i64')), ('b', S('u8'))]),
             Struct('M12', [('a', S('f32')), ('b', S('f64'))]), Struct('M16', [('a', S('f64')), ('b', S('i64'))]),
             Struct('M17', [('a', S('u8')), ('b', S('i64')), ('c', S('u8'))]), Struct('M24', [('a', S('i64')), ('b', S('i64')), ('c', S('i64'))]),
             Struct('M6', [('a', S('u16')), ('b', S('u16')), ('c', S('u16'))]), Struct('MF', [('a', S('f32')), ('b', S('f32')), ('c', S('f32'))])]
    for m in mixed:
        shapes[m.name] = m
    for nm, st in shapes.items():
        decls.append(st)
        vb = value_bytes(st)
        # return by value
        fn = 'ret_' + nm
        src = ('mk_%s :: (p: ^%s) -> %s { p^ }\n' % (nm, nm, nm) +
               '%s :: (p: ^%s, out: ^mut %s, g: u64) -> u64 { g1 := g; s := mk_%s(p); g2 := g; out^ = s; g1 ~ g2 ~ g }' % (fn, nm, nm, nm))

        def post_ret(ctx, xs, st=st, vb=vb):
            src_b, out_b = ctx.bufs
            goals = [('locals around the returned value keep their value', ctx.path.ret[0] == xs[0]),
                     ('source unchanged', frame(ctx, src_b, [])),
                     ('nothing outside the destination changed', frame(ctx, out_b, [(0, st.size())]))]
            for (o, n) in vb:
                goals.append(('returned bytes equal the source', ctx.final_bytes(out_b, o, n) == ctx.init_bytes(src_b, o, n)))
            return goals
        obs.append(Ob(fn, src, [('buf', st, False), ('buf', st, True), ('scalar', 'u64')], 'u64', post_ret,
                      {'kind': 'by-value-return', 'size': st.size(), 'shape': nm}))
        # pass by value; callee mutates its copy
        fn = 'arg_' + nm
        first = st.fields[0]
        mut_stmt = 't.a[0] = 9;' if first[1].kind == 'array' else ('t.a = 9;' if not first[1].is_float() else 't.a = 9.0;')
        src = ('take_%s :: (s: %s, out: ^mut %s) { out^ = s; t := s; %s }\n' % (nm, nm, nm, mut_stmt) +
               '%s :: (p: ^%s, out: ^mut %s, g: u64) -> u64 { g1 := g; s := p^; g2 := g; take_%s(s, out); take_%s(p^, out); g1 ~ g2 ~ g }' % (fn, nm, nm, nm, nm))
        obs.append(Ob(fn, src, [('buf', st, False), ('buf', st, True), ('scalar', 'u64')], 'u64', post_ret,
                      {'kind': 'by-value-argument', 'size': st.size(), 'shape': nm}))
    return obs, decls


def build_source(decls, obs):
    lines = [clifcheck.PRELUDE]
    lines += [d.decl() for d in decls]
    lines += [o.src for o in obs]
    refs = '\n'.join('    r%d := %s;' % (i, o.name) for i, o in enumerate(obs))
    return '\n'.join(lines) + '\n', 'refs :: () {\n' + refs + '\n}\n'


def run(chk, tier, seed):
    common.build_capy()
    rnd = random.Random(seed)
    structs = curated_structs() + gen_structs(rnd, 8 if tier == 'quick' else 240)
    sizes = [1, 2, 3, 4, 5, 7, 8, 9, 12, 15, 16, 17, 24, 32, 33, 64] if tier == 'quick' else list(range(1, 65))
    obs = gen_obligations(structs) + local_obligations()
    abi_obs, abi_decls = abi_obligations(sizes, rnd)
    obs += abi_obs
    lit_obs, lit_decls = literal_obligations()
    obs += lit_obs
    ci_obs, ci_decls = copy_independence_obligations()
    obs += ci_obs
    al_obs, al_decls = alias_literal_obligations()
    obs += al_obs; ci_decls = ci_decls + al_decls
    ca_obs, ca_decls = compound_assign_obligations()
    ca_decls = ca_decls + ci_decls
    # the forms that the type checker may reject are tried one by one; only the accepted ones are obligations
    kept = []
    for ob in ca_obs:
        if getattr(ob, 'may_be_rejected', False):
            s1, r1 = build_source(ca_decls, [ob])
            m1, o1 = clifcheck.compile_module('C02', 'optional', s1 + r1 + 'main :: () { refs(); }\n')
            if m1 is None:
                chk.cov['rejected_by_the_checker_nothing_to_check'] = chk.cov.get('rejected_by_the_checker_nothing_to_check', 0) + 1
                continue
        kept.append(ob)
    obs += kept
    decls = DECLS + structs + abi_decls + lit_decls + ca_decls
    src, refs = build_source(decls, obs)
    mod, out = clifcheck.compile_module('C02', 'writes', src + refs + 'main :: () { refs(); }\n')
    if mod is None:
        raise Inconclusive('the C02 template was rejected by the compiler:\n' + out[-1500:])
    chk.opcodes.update(mod.opcodes)
    prover = Prover(chk, timeout_ms=60000 if tier == 'quick' else 300000)
    bad = 0
    for ob in obs:
        bad += check_ob(chk, prover, mod, ob, (src, refs))
    chk.cov.update({'programs': len(obs), 'disagreements_checked': bad,
                    'explanation': 'programs = write templates (one function each); every one is proved for all written values and all initial bytes of the surrounding buffer'})
    chk.bounds.update({'struct_shapes': len(structs), 'by_value_sizes': sizes, 'guard_bytes_each_side': 8 * GUARD_WORDS,
                       'outside_claim': ['writes by extern C code', 'other ABIs than x86-64 SysV', 'globals as destinations']})
    chk.assumptions.extend(['layout oracle = documented rules (lib/capyty.py)', 'Cranelift lowers each CLIF opcode as documented',
                            'explicit stack slots are placed as cranelift-codegen 0.123 does (engine/clifsym/exec.py layout())'])


def replay(path):
    return replaylib.run_replay(path)
