"""C03 — each executed defer runs exactly once, in LIFO order, on every exit path.

Engine B + reference semantics (DESIGN.md section 5, C03). Generated functions nest blocks, loops and defers and leave
them by fall-through, break, labeled break, continue, return and `.try`, each exit under its own symbolic
guard. The real compiler's Cranelift IR is executed symbolically (every combination of guard outcomes is a
path); for each path z3 decides whether any input on that path has a different `mark` trace in a small
reference interpreter written from README.md ("defer runs when control leaves its block, LIFO").
"""
import itertools
import random
import z3

from lib import common, clifcheck, replay as replaylib
from lib.common import Inconclusive
from lib.clifcheck import Prover, model_val
from engine.clifsym import State, Engine, Unsupported

LEVEL = 'translation_validation'
LOOP_ITERS = 2


# ---- program generator ---------------------------------------------------------------------------------
# stmt: ('defer', k) ('mark', k) ('block', label, stmts) ('loop', label, ctr, stmts) ('if', guard, stmts)
#       ('break', label) ('continue', label) ('return',) ('try', guard)
# guard: ('b', k) bool parameter c<k>;  ('it', k, ctr) u8 parameter c<k> compared with loop counter ctr

class Gen:
    def __init__(self, rnd, max_depth, max_defers, with_try):
        self.r = rnd; self.k = 0; self.conds = []; self.nlab = 0; self.nctr = 0
        self.max_depth = max_depth; self.max_defers = max_defers; self.with_try = with_try

    def mark(self):
        self.k += 1
        return self.k

    def guard(self, loops):
        if loops and self.r.random() < 0.4:
            self.conds.append('u8')
            return ('it', len(self.conds) - 1, self.r.choice(loops))
        self.conds.append('bool')
        return ('b', len(self.conds) - 1)

    def stmts(self, depth, loops, labels, loop_labels, n, ub=True):
        out = []
        ndef = 0
        for _ in range(n):
            c = self.r.random()
            if c < 0.28 and ndef < self.max_defers:
                # some deferred expressions contain a loop with its own continue / break (jumps that stay inside the defer)
                kind = self.r.choice(['defer', 'defer', 'defer', 'deferloop', 'deferbreak'])
                out.append((kind, self.mark())); ndef += 1
            elif c < 0.40:
                out.append(('mark', self.mark()))
            elif c < 0.55 and depth > 0:
                lab = None
                if self.r.random() < 0.6:
                    self.nlab += 1; lab = 'b%d' % self.nlab
                out.append(('block', lab, self.stmts(depth - 1, loops, labels + ([lab] if lab else []), loop_labels, self.r.randint(1, 4), True if lab else ub)))
            elif c < 0.60 and depth > 0:
                # a labeled block used as a value of type ?void: `r : ?void = `v1: { .. break `v1 nil; .. };`
                self.nlab += 1; lab = 'v%d' % self.nlab
                out.append(('vblock', lab, self.stmts(depth - 1, [], labels + [lab], [], self.r.randint(1, 4), False)))
            elif c < 0.72 and depth > 0:
                lab = None
                if self.r.random() < 0.5:
                    self.nlab += 1; lab = 'l%d' % self.nlab
                self.nctr += 1; ctr = 'i%d' % self.nctr
                out.append(('loop', lab, ctr, self.stmts(depth - 1, loops + [ctr], labels + ([lab] if lab else []),
                                                       loop_labels + ([lab] if lab else []), self.r.randint(1, 4), True)))
            elif len(self.conds) < 6:
                kinds = ['return']
                # an unlabeled break targets the innermost loop or labeled block; when that is a ?void value block it would
                # need a value, so it is only generated when the innermost target is a loop or a plain labeled block
                if ub and (loops or [l for l in labels if l and not l.startswith('v')]):
                    kinds += ['break']
                if loops:
                    kinds += ['continue', 'continue'] + (['break'] if ub else [])
                if labels:
                    kinds += ['breaklab', 'breaklab']
                if loop_labels:
                    kinds += ['continuelab']
                if self.with_try:
                    kinds += ['try']
                kd = self.r.choice(kinds)
                g = self.guard(loops)
                if kd == 'try':
                    out.append(('try', g)); continue
                # value-less `return;` / `break `v;` leaving a ?void function / ?void value block: the void is wrapped
                ex = {'return': ('return', self.r.random() < 0.4), 'continue': ('continue', None), 'break': ('break', None, False),
                      'breaklab': ('break', self.r.choice(labels) if labels else None, self.r.random() < 0.4),
                      'continuelab': ('continue', self.r.choice(loop_labels) if loop_labels else None)}[kd]
                body = [ex]
                if self.r.random() < 0.3:
                    body = [('defer', self.mark())] + body
                out.append(('if', g, body))
            else:
                out.append(('mark', self.mark()))
        return out


def guard_src(g):
    if g[0] == 'b':
        return 'c%d' % g[1]
    return 'c%d == %s' % (g[1], g[2])


def emit(name, body, conds, with_try):
    lines = []

    def go(stmts, ind):
        pad = '    ' * ind
        for s in stmts:
            t = s[0]
            if t == 'defer': lines.append('%sdefer mark(%d);' % (pad, s[1]))
            elif t == 'deferloop':
                lines.append('%sdefer { dj%d : u8 = 0; while dj%d < 2 { dj%d = dj%d + 1; if dj%d == 1 { continue; } mark(%d); } };' % ((pad,) + (s[1],) * 5 + (s[1],)))
            elif t == 'deferbreak':
                lines.append('%sdefer { dk%d : u8 = 0; while dk%d < 3 { dk%d = dk%d + 1; mark(%d); break; } };' % ((pad,) + (s[1],) * 4 + (s[1],)))
            elif t == 'mark': lines.append('%smark(%d);' % (pad, s[1]))
            elif t == 'block':
                lines.append(pad + ('`%s: ' % s[1] if s[1] else '') + '{'); go(s[2], ind + 1); lines.append(pad + '}')
            elif t == 'vblock':
                lines.append('%sr_%s : ?void = `%s: {' % (pad, s[1], s[1])); go(s[2], ind + 1); lines.append(pad + '};')
            elif t == 'loop':
                lines.append('%s%s : u8 = 0;' % (pad, s[2]))
                lines.append(pad + ('`%s: ' % s[1] if s[1] else '') + 'while %s < %d {' % (s[2], LOOP_ITERS))
                lines.append('%s    %s = %s + 1;' % (pad, s[2], s[2]))
                go(s[3], ind + 1); lines.append(pad + '}')
            elif t == 'if':
                lines.append('%sif %s {' % (pad, guard_src(s[1]))); go(s[2], ind + 1); lines.append(pad + '}')
            elif t == 'break': lines.append(pad + 'break' + (' `%s' % s[1] if s[1] else '') + (' nil' if s[1] and s[1].startswith('v') and not (len(s) > 2 and s[2]) else '') + ';')
            elif t == 'continue': lines.append(pad + 'continue' + (' `%s' % s[1] if s[1] else '') + ';')
            elif t == 'return': lines.append(pad + ('return nil;' if (with_try and not (with_try == 'void' and len(s) > 1 and s[1])) else 'return;'))
            elif t == 'try':
                lines.append('%sopt(%s).try;' % (pad, guard_src(s[1])))
    go(body, 1)
    params = ', '.join('c%d: %s' % (i, t) for i, t in enumerate(conds))
    if with_try == 'void':
        return '%s :: (%s) -> ?void {\n%s\n}\n' % (name, params, '\n'.join(lines))
    if with_try:
        return '%s :: (%s) -> ?u64 {\n%s\n    7\n}\n' % (name, params, '\n'.join(lines))
    return '%s :: (%s) {\n%s\n}\n' % (name, params, '\n'.join(lines))


# ---- reference semantics -------------------------------------------------------------------------------

class Jump(Exception):
    def __init__(self, kind, label=None):
        self.kind = kind; self.label = label


def ref_trace(body, assign, cond_types):
    """trace of mark() arguments under a concrete assignment (bool -> 0/1, u8 -> 1, 2 or 0 for 'neither');
    returns (trace, outcome) with outcome in {'end', 'return', 'try-nil'}"""
    trace = []
    ctrs = {}

    def gval(g):
        if g[0] == 'b':
            return bool(assign[g[1]])
        return assign[g[1]] == ctrs[g[2]]

    def run_block(stmts):
        """runs the statements of ONE block; its defers run when the block is left, however it is left"""
        defers = []
        try:
            for s in stmts:
                t = s[0]
                if t in ('defer', 'deferloop', 'deferbreak'): defers.append(s[1])     # each of the three prints its mark once
                elif t == 'mark': trace.append(s[1])
                elif t in ('block', 'vblock'):
                    try:
                        run_block(s[2])
                    except Jump as j:
                        # a labeled break targets this block; an unlabeled break targets the innermost
                        # enclosing loop or LABELED block
                        if j.kind == 'break' and s[1] is not None and (j.label is None or j.label == s[1]):
                            pass
                        else:
                            raise
                elif t == 'loop':
                    ctrs[s[2]] = 0
                    while ctrs[s[2]] < LOOP_ITERS:
                        ctrs[s[2]] += 1
                        try:
                            run_block(s[3])
                        except Jump as j:
                            if j.kind == 'continue' and (j.label is None or j.label == s[1]):
                                continue
                            if j.kind == 'break' and (j.label is None or j.label == s[1]):
                                break
                            raise
                elif t == 'if':
                    if gval(s[1]):
                        run_block(s[2])
                elif t == 'break': raise Jump('break', s[1])
                elif t == 'continue': raise Jump('continue', s[1])
                elif t == 'return': raise Jump('return')
                elif t == 'try':
                    if not gval(s[1]):
                        raise Jump('try-nil')
        finally:
            for k in reversed(defers):
                trace.append(k)
    outcome = 'end'
    try:
        run_block(body)
    except Jump as j:
        if j.kind in ('return', 'try-nil'):
            outcome = j.kind
        elif j.kind == 'break' and j.label is None:
            outcome = 'return'      # an unlabeled break with nothing to break to leaves the function body
        else:
            raise AssertionError('jump escaped: %s %s' % (j.kind, j.label))
    return trace, outcome


CLASSES = {'bool': [0, 1], 'u8': [1, 2, 0]}


def class_constraint(v, t, a):
    if t == 'bool':
        return v == a
    if a == 0:
        return z3.And(v != 1, v != 2)
    return v == a


# ---- the check --------------------------------------------------------------------------------------------

OPT_HELPER = 'opt :: (c: bool) -> ?u64 { if c { 5 } else { nil } }\n'


def features(body, assign, cond_types):
    """which exit statement fired first under this assignment, and what surrounded it: the role key of a finding"""
    # static summary used only to key known findings: kinds of exits present and whether defers are pending around them
    kinds = set()

    def walk(stmts, in_loop, pending_here, pending_outer_of_loop):
        for i, s in enumerate(stmts):
            t = s[0]
            if t in ('defer', 'deferloop', 'deferbreak'):
                pending_here = True
            elif t in ('block', 'vblock'):
                walk(s[2], in_loop, False, pending_outer_of_loop or (pending_here and in_loop))
            elif t == 'loop':
                walk(s[3], True, False, False)
            elif t == 'if':
                later_defer = any(x[0] in ('defer', 'deferloop', 'deferbreak') for x in stmts[i + 1:])
                for e in s[2]:
                    if e[0] in ('break', 'continue', 'return'):
                        kinds.add(e[0])
                        if later_defer:
                            kinds.add(e[0] + '-before-later-defer')
                        if pending_here:
                            kinds.add(e[0] + '-with-pending-defer')
            elif t == 'try':
                kinds.add('try')
    walk(body, False, False, False)
    return sorted(kinds)


def generate(tier, seed):
    rnd = random.Random(seed)
    nprog = 40 if tier == 'quick' else 400
    depth = 3 if tier == 'quick' else 4
    maxdef = 2 if tier == 'quick' else 3
    progs = []
    attempts = 0
    while len(progs) < nprog and attempts < nprog * 20:
        attempts += 1
        with_try = rnd.choice([False, False, True, 'void'])
        g = Gen(rnd, depth, maxdef, with_try)
        body = g.stmts(depth, [], [], [], rnd.randint(2, 5))
        if not g.conds or g.k < 2:
            continue
        progs.append(('f%d' % len(progs), body, list(g.conds), with_try))
    return curated() + progs


def run(chk, tier, seed):
    common.build_capy()
    progs = generate(tier, seed)
    # a program the compiler does not build cannot violate C03; acceptance of these programs is decided by C01, which
    # compiles the same generator's output (props/c01.py, acceptance corpus). Here they are set aside and counted.
    mod, src, good, notbuilt = clifcheck.compile_programs('C03', 'defers', clifcheck.PRELUDE + OPT_HELPER, [(n, emit(n, b, c, w)) for n, b, c, w in progs])
    if len(notbuilt) * 4 > len(progs):
        raise Inconclusive('%d of %d generated defer programs are not compiled:\n%s' % (len(notbuilt), len(progs), notbuilt[0][2][-1500:]))
    chk.cov['programs_not_compiled_left_to_C01'] = [n for n, _, _ in notbuilt]
    progs = [p for p in progs if p[0] in set(good)]
    chk.opcodes.update(mod.opcodes)
    prover = Prover(chk)
    npaths = 0; bad = 0; combos = 0
    for name, body, conds, with_try in progs:
        cs = [z3.BitVec('c%d' % i, 8) for i in range(len(conds))]
        pre = [z3.ULE(c, 1) for c, t in zip(cs, conds) if t == 'bool']
        eng = Engine(mod, event_funcs={'mark'}, max_visits=4 * LOOP_ITERS ** (3 if tier == 'quick' else 4) + 16)
        st = State(); st.pc.extend(pre)
        try:
            paths = eng.run(mod.by_pretty(name), cs, st)
        except Unsupported as e:
            raise Inconclusive('%s: %s' % (name, e))
        chk.funcs_encoded.update(eng.funcs_run); chk.solver_s += eng.solver_s
        chk.cov['ir_instructions_executed'] = chk.cov.get('ir_instructions_executed', 0) + eng.steps_total
        if any(p.status == 'bound' for p in paths):
            # more block visits than the unwinding bound allows (deeply nested loops): the program is set aside, counted
            chk.cov['programs_beyond_the_unwinding_bound'] = chk.cov.get('programs_beyond_the_unwinding_bound', 0) + 1
            continue
        # reference table over the finite partition of the input space
        table = {}
        for assign in itertools.product(*[CLASSES[t] for t in conds]):
            table[assign] = ref_trace(body, assign, conds)
        combos += len(table)
        prog_bad = False
        for p in paths:
            npaths += 1
            if p.status == 'bound':
                raise Inconclusive(name + ': path cut at the unwinding bound')
            if p.status != 'ret':
                raise Inconclusive('%s: path ended with status %s' % (name, p.status))
            trace = []
            for (n, a) in p.events:
                if n != 'mark':
                    raise Inconclusive('%s: unexpected extern call %s' % (name, n))
                if not z3.is_bv_value(a[0]):
                    raise Inconclusive('%s: mark argument is not a constant' % name)
                trace.append(a[0].as_long())
            differing = [a for a, (rt, oc) in table.items() if rt != trace]
            if not differing:
                continue
            goal = z3.Not(z3.Or(*[z3.And(*[class_constraint(c, t, v) for c, t, v in zip(cs, conds, a)]) for a in differing]))
            r, model = prover.prove(list(p.pc), goal)
            if r == 'unsat':
                continue
            if r == 'unknown':
                chk.inconclusive_note(name + ': no verdict'); continue
            prog_bad = True
            vals = [model_val(model, c) for c in cs]
            assign = tuple((v if t == 'bool' else (v if v in (1, 2) else 0)) for v, t in zip(vals, conds))
            rt, oc = table[assign]
            reproduce(chk, src, name, body, conds, with_try, vals, rt, trace)
            break
        bad += prog_bad
        chk.sample({'program': emit(name, body, conds, with_try), 'paths': len(paths), 'input_classes': len(table),
                    'verdict': 'counterexample' if prog_bad else 'all paths agree with the reference for all inputs'}, limit=4)
    chk.cov.update({'programs': len(progs), 'disagreements_checked': bad, 'paths': npaths, 'reference_input_classes': combos,
                    'explanation': 'per CLIF path one SMT query: no input on the path has a reference trace different from the path\'s mark trace'})
    depth = 3 if tier == 'quick' else 4; maxdef = 2 if tier == 'quick' else 3
    chk.bounds.update({'nesting_depth': depth, 'defers_per_block': maxdef, 'loop_iterations': LOOP_ITERS, 'guards_per_function': '<= 6',
                       'exits': ['fall-through', 'break', 'labeled break', 'continue', 'labeled continue', 'return', '.try on an optional'],
                       'outside_claim': ['defers that themselves jump', 'defers inside comptime blocks', 'more than %d loop iterations' % LOOP_ITERS]})
    chk.assumptions.extend(['reference semantics = README "Defer" section + property statement (props/c03.py ref_trace)',
                            'an unlabeled break targets the innermost enclosing loop or labeled block (README "break")'])


def reproduce(chk, src, name, body, conds, with_try, vals, ref, clif_trace):
    nb = clifcheck.NativeBatch('C03', 'replay_' + name, src)
    nb.add(name, [(t, v) for t, v in zip(conds, vals)], None)
    if with_try:
        # the optional result is ignored: wrap the call
        nb.src = src + 'wrap_%s :: (%s) { x := %s(%s); }\n' % (name, ', '.join('c%d: %s' % (i, t) for i, t in enumerate(conds)), name,
                                                                ', '.join('c%d' % i for i in range(len(conds))))
        nb.calls[0] = ('wrap_' + name, nb.calls[0][1], None, [])
    res = nb.run()
    if res is None or res[0] is None:
        chk.inconclusive_note('%s: replay program did not run: %s' % (name, (nb.last.get('build_out') or '')[-300:]))
        return
    native = [v[1] for v in res[0] if isinstance(v, tuple) and v[0] == 'mark']
    feats = features(body, None, conds)
    what = 'defer trace of %s with guards %s: language semantics give %s, the built program prints %s' % (name, vals, ref, native)
    if native == ref:
        chk.inconclusive_note('model for %s did not reproduce natively (CLIF trace %s, native %s, reference %s)' % (name, clif_trace, native, ref))
        return
    key = {'kind': 'defer-trace', 'symptom': symptom(ref, native), 'exits': feats}
    exp = ''.join('m%016x\n' % k for k in ref) + ';\n'
    path = replaylib.make_native_replay('C03', name, nb.source(), exp, 0, nb.last['stdout'], nb.last['rc'], what, key,
                                        extra={'program': emit(name, body, conds, with_try)})
    chk.report(key, what, path)


def symptom(ref, native):
    from collections import Counter
    cr, cn = Counter(ref), Counter(native)
    if any(cn[k] > cr[k] for k in cn) and any(cn[k] < cr[k] for k in cr):
        return 'some-defers-extra-some-missing'
    if any(cn[k] > cr[k] for k in cn):
        return 'defer-ran-too-often-or-unreached'
    if any(cn[k] < cr[k] for k in cr):
        return 'defer-skipped'
    return 'wrong-order'


def curated():
    """one small program per construct so that every exit kind is present in every run"""
    P = []
    P.append(('k_fall', [('defer', 1), ('block', None, [('defer', 2), ('mark', 3)]), ('mark', 4)], ['bool'], False))
    P[-1] = ('k_fall', [('defer', 1), ('block', None, [('defer', 2), ('mark', 3)]), ('if', ('b', 0), [('mark', 5)]), ('mark', 4)], ['bool'], False)
    P.append(('k_return', [('defer', 1), ('if', ('b', 0), [('return',)]), ('defer', 2), ('mark', 3)], ['bool'], False))
    P.append(('k_break_lab', [('defer', 1), ('block', 'a', [('defer', 2), ('block', None, [('defer', 3), ('if', ('b', 0), [('break', 'a')]), ('mark', 4)]), ('defer', 5)]), ('mark', 6)], ['bool'], False))
    P.append(('k_continue', [('defer', 1), ('loop', None, 'i1', [('defer', 2), ('if', ('it', 0, 'i1'), [('continue', None)]), ('mark', 3)]), ('mark', 4)], ['u8'], False))
    P.append(('k_break_loop', [('defer', 1), ('loop', None, 'i1', [('defer', 2), ('if', ('it', 0, 'i1'), [('break', None)]), ('mark', 3)]), ('mark', 4)], ['u8'], False))
    P.append(('k_break_loop_in_block', [('block', None, [('defer', 1), ('loop', None, 'i1', [('if', ('b', 0), [('break', None)]), ('mark', 3)]), ('mark', 4)]), ('mark', 5)], ['bool'], False))
    P.append(('k_try', [('defer', 1), ('block', None, [('defer', 2), ('try', ('b', 0)), ('mark', 3)]), ('mark', 4)], ['bool'], True))
    P.append(('k_return_nested', [('defer', 1), ('block', 'a', [('defer', 2), ('loop', 'l', 'i1', [('defer', 3), ('if', ('b', 0), [('return',)])])])], ['bool'], False))
    P.append(('k_optvoid_fn', [('defer', 1), ('if', ('b', 0), [('return',)]), ('defer', 2), ('mark', 3)], ['bool'], 'void'))
    P.append(('k_optvoid_try', [('defer', 1), ('try', ('b', 0)), ('defer', 2), ('mark', 3)], ['bool'], 'void'))
    P.append(('k_optvoid_block', [('defer', 1), ('loop', None, 'i1', [('defer', 2), ('vblock', 'v1', [('defer', 3), ('if', ('it', 0, 'i1'), [('break', 'v1')]), ('defer', 4), ('mark', 5)])])], ['u8'], False))
    P.append(('k_defer_with_loop_return', [('defer', 1), ('block', None, [('deferloop', 2), ('if', ('b', 0), [('return',)]), ('mark', 3)]), ('mark', 4)], ['bool'], False))
    P.append(('k_defer_with_break_break', [('defer', 1), ('block', 'a', [('deferbreak', 2), ('block', None, [('defer', 3), ('if', ('b', 0), [('break', 'a')]), ('mark', 4)])]), ('mark', 5)], ['bool'], False))
    P.append(('k_continue_lab', [('loop', 'o', 'i1', [('defer', 1), ('loop', None, 'i2', [('defer', 2), ('if', ('b', 0), [('continue', 'o')]), ('mark', 3)])])], ['bool'], False))
    return P


def replay(path):
    return replaylib.run_replay(path)
