"""C05 — names resolve to the innermost visible binding; scopes end where they end (accepted programs).

Engine B + reference semantics (DESIGN.md section 5, C05). Programs over the identifier pool {a, b, c}: every binding (file
global, function parameter, comptime-free helper parameter, block local, shadowing re-declaration, switch-arm
argument) is initialised from a DIFFERENT symbolic input plus a distinct constant, and every use is observed with
`mark(name)`, including uses after a block or a switch that bound the same name. The real compiler's code is
executed symbolically and compared with lib/refsem.py's lexical scoping (innermost enclosing block local or switch
argument declared earlier, then parameter of the enclosing function, then file global) on every path, for ALL input
values — so a mis-resolution cannot hide behind equal values. The rejection half (undefined names) has no
run-time value to quantify over and is outside this check.
"""
import os
import random
import z3

from lib import common, clifcheck, refsem, elfdata, replay as replaylib
from lib.common import Inconclusive
from lib.clifcheck import Prover
from props import c01

LEVEL = 'translation_validation'
# `f32` and `str` are also built-in type names: a global, parameter or local of that name comes first in the lookup order
# ("... then a global of the same file, then a built-in type name or `nil`")
POOL = ['a', 'b', 'c', 'f32', 'str']


class Gen:
    def __init__(self, rnd, idx):
        self.r = rnd; self.idx = idx; self.k = 0; self.nopt = 0

    def const(self):
        self.k += 1
        return 1000 * self.k + 7

    def value(self, inputs):
        """a value no other binding has: an input plus a unique constant"""
        return ('bin', 'add', ('var', self.r.choice(inputs)), ('int', self.const(), 'i64'))

    def stmts(self, depth, n, inputs, helper, forbid=()):
        r = self.r
        out = []
        POOL = [x for x in globals()['POOL'] if x not in forbid]
        if not POOL:        # every pool name is an unobservable switch argument here
            return [('markc', self.const())]
        for _ in range(n):
            c = r.random()
            if c < 0.28:
                out.append(('letx', r.choice(POOL), self.value(inputs), r.random() < 0.5))
            elif c < 0.55:
                out.append(('mark', ('var', r.choice(POOL))))
            elif c < 0.68 and depth > 0:
                out.append(('block', None, self.stmts(depth - 1, r.randint(1, 4), inputs, helper, forbid)))
                out.append(('mark', ('var', r.choice(POOL))))
            elif c < 0.82 and depth > 0:
                self.nopt += 1
                o = 'o%d' % self.nopt
                out.append(('let', o, ('opt', 'i64'), ('nil',), True))
                out.append(('if', ('bin', 'gt', ('var', r.choice(inputs)), ('int', 5, 'i64')), [('assign', ('var', o), self.value(inputs))], None))
                arg = r.choice(POOL)
                # inside the nil arm the argument has type nil and cannot be observed: that name is not used there
                out.append(('switch', arg, ('var', o), [('i64', [('mark', ('var', arg))] + self.stmts(depth - 1, r.randint(0, 2), inputs, helper, forbid)),
                                                        # (a default arm `_ =>` binds the argument at the scrutinee's type: same rule)
                                                        ('nil' if r.random() < 0.5 else '_', [('markc', self.const())] + self.stmts(depth - 1, r.randint(0, 2), inputs, helper, tuple(forbid) + (arg,)))]))
                out.append(('mark', ('var', arg)))       # the switch argument must not be visible any more
            elif c < 0.92 and helper is not None:
                out.append(('mark', ('call', helper['name'], [('var', r.choice(POOL)) for _ in helper['params']])))
            else:
                out.append(('if', ('bin', 'lt', ('var', r.choice(inputs)), ('int', 3, 'i64')), [('letx', r.choice(POOL), self.value(inputs), False), ('mark', ('var', r.choice(POOL)))], None))
                out.append(('mark', ('var', r.choice(POOL))))
        return out


def gen_program(rnd, idx, tier):
    g = Gen(rnd, idx)
    gl = {n + '': ('i64', ('int', g.const(), 'i64')) for n in POOL}
    # helper: parameters named from the pool shadow the globals; the remaining pool names are the globals
    hp = rnd.sample(POOL, rnd.randint(1, 2))
    helper = {'name': 'h%d' % idx, 'params': [{'name': n, 'ty': 'i64'} for n in hp], 'ret': 'i64',
              'body': [('mark', ('var', n)) for n in POOL] + ([('letx', hp[0], ('bin', 'add', ('var', hp[0]), ('int', g.const(), 'i64')), False), ('mark', ('var', hp[0]))] if rnd.random() < 0.6 else []),
              'tail': ('var', rnd.choice(POOL))}
    ep = rnd.sample(POOL, rnd.randint(0, 2))
    inputs = ['x0', 'x1', 'x2', 'x3']
    params = [{'name': n, 'ty': 'i64'} for n in ep] + [{'name': n, 'ty': 'i64'} for n in inputs]
    body = g.stmts(2 if tier == 'quick' else 3, rnd.randint(5, 9 if tier == 'quick' else 14), inputs, helper)
    entry = {'name': 'e%d' % idx, 'params': params, 'ret': 'i64', 'body': body, 'tail': ('var', rnd.choice(POOL))}
    return {'structs': {}, 'funcs': [helper, entry], 'entry': entry['name'], 'globals': gl}


def run(chk, tier, seed):
    common.build_capy()
    rnd = random.Random(seed)
    nfiles = 16 if tier == 'quick' else 160
    prover = Prover(chk)
    stats = {'clif_paths': 0, 'ref_paths': 0, 'path_pairs': 0, 'skipped_too_many_paths': 0, 'outside_reference_semantics': 0, 'rejected': 0}
    checked = 0; bad = 0
    for i in range(nfiles):
        # one program per file: the globals a, b, c are per file
        prog = gen_program(rnd, i, tier)
        gsrc = ''.join('%s : i64 : %d;\n' % (n, e[1]) for n, (t, e) in prog['globals'].items())
        src = clifcheck.PRELUDE + gsrc + c01.program_src(prog)
        full = src + 'main :: () { r := %s; }\n' % prog['entry']
        mod, out = clifcheck.compile_module('C05', 'names', full)
        if mod is None:
            stats['rejected'] += 1; bad += 1
            first = [l for l in out.splitlines() if l.startswith('error') or 'panicked' in l][:1]
            # role of the known defect: a later use of an outer name after a switch that bound the same name
            key = {'kind': 'rejected-well-typed', 'what': classify_rejection(out)}
            what = 'a program that is well-typed by lexical scoping is rejected: %s' % (first[0][:200] if first else out[-200:])
            chk.report(key, what, replaylib.make_compile_replay('C05', 'rejected_%d' % i, full, out, what, key))
            continue
        chk.opcodes.update(mod.opcodes)
        data = elfdata.data_objects(os.path.join(common.workdir('C05'), 'out', 'names.o'))
        r = c01.check_program(chk, prover, mod, prog, src, stats, data=data, prop='C05')
        if r is not None:
            checked += 1
            if r is False:
                bad += 1
            chk.sample({'program': gsrc + c01.program_src(prog), 'verdict': 'every use resolves as lexical scoping prescribes, for all inputs' if r else 'counterexample'}, limit=3)
    chk.cov.update({'programs': checked, 'disagreements_checked': bad, 'generated_programs': nfiles,
                    'explanation': 'programs = generated files; each entry function is compared with the reference scoping semantics on every path pair, all inputs symbolic'})
    chk.cov.update(stats)
    chk.bounds.update({'identifier_pool': POOL, 'nesting_depth': 2 if tier == 'quick' else 3, 'binding_kinds': ['file global', 'function parameter', 'block local', 'shadowing re-declaration', 'switch-arm argument', 'helper-function parameter'],
                       'outside_claim': ['the rejection half (UndefinedRef)', 'comptime parameters and inline header references', '`nil` as a user-defined name', 'imports']})
    chk.assumptions.extend(['reference scoping = property statement + README (lib/refsem.py)', 'data objects (global constants) are read from the object file the compiler wrote', 'Cranelift opcode semantics as documented'])


def classify_rejection(out):
    if 'cannot be added' in out or 'expected a value of' in out or 'mismatch' in out.lower():
        return 'type error after a scope ended'
    if 'panicked' in out:
        return 'compiler panic'
    first = [l for l in out.splitlines() if l.startswith('error')][:1]
    return first[0][:60] if first else 'other'


def replay(path):
    return replaylib.run_replay(path)
