"""C08 — integer/float operators and casts have exact two's-complement semantics.

Engine B (DESIGN.md section 5, C08): one Capy function per (type, operator) and per cast pair is compiled by the
real compiler; its Cranelift IR is executed symbolically and `result == spec(operands)` is proved for
ALL operand values by z3 (negated goal unsat). Counterexamples are replayed natively.
"""
import random
import z3

from lib import common, clifcheck, replay as replaylib
from lib.common import Inconclusive
from lib.clifcheck import bits_of, signed_of, INT_TYPES, Prover, model_val
from engine.clifsym import State, Engine, Unsupported

LEVEL = 'translation_validation'

INTS = ['i8', 'i16', 'i32', 'i64', 'u8', 'u16', 'u32', 'u64', 'isize', 'usize']
BIG = ['i128', 'u128']
OPS = {'add': '+', 'sub': '-', 'mul': '*', 'div': '/', 'rem': '%', 'and': '&', 'or': '|', 'xor': '~', 'shl': '<<', 'shr': '>>'}
CMPS = {'lt': '<', 'le': '<=', 'gt': '>', 'ge': '>=', 'eq': '==', 'ne': '!='}
FLOATS = ['f32', 'f64']


def fsort(t):
    return z3.Float32() if t == 'f32' else z3.Float64()


class Case:
    def __init__(self, name, src, params, ret, spec, key, out_ptr=None):
        self.name = name; self.src = src
        self.params = params      # list of capy scalar types or ('ptr', t) for by-pointer inputs
        self.ret = ret            # capy type or None
        self.out_ptr = out_ptr    # capy type written through the last pointer parameter, or None
        self.spec = spec          # f(args) -> (pre list, expected z3 expr)
        self.key = key
        self.region = None        # f(args) -> z3 Bool: operand region a listed finding is confined to


def spec_bin(op, t):
    w = bits_of(t); s = signed_of(t)

    def f(args):
        a, b = args
        if op == 'add': return [], a + b
        if op == 'sub': return [], a - b
        if op == 'mul': return [], a * b
        if op in ('div', 'rem'):
            pre = [b != 0]
            if s:
                pre.append(z3.Not(z3.And(a == z3.BitVecVal(1 << (w - 1), w), b == z3.BitVecVal(-1, w))))
            if op == 'div':
                return pre, (a / b if s else z3.UDiv(a, b))
            return pre, (z3.SRem(a, b) if s else z3.URem(a, b))
        if op == 'and': return [], a & b
        if op == 'or': return [], a | b
        if op == 'xor': return [], a ^ b
        if op == 'shl': return [z3.ULT(b, w)], a << b
        if op == 'shr': return [z3.ULT(b, w)], (a >> b if s else z3.LShR(a, b))
        raise KeyError(op)
    return f


def b2bv(c):
    return z3.If(c, z3.BitVecVal(1, 8), z3.BitVecVal(0, 8))


def spec_cmp(op, t):
    s = signed_of(t)

    def f(args):
        a, b = args
        r = {'lt': (a < b) if s else z3.ULT(a, b), 'le': (a <= b) if s else z3.ULE(a, b),
             'gt': (a > b) if s else z3.UGT(a, b), 'ge': (a >= b) if s else z3.UGE(a, b),
             'eq': a == b, 'ne': a != b}[op]
        return [], b2bv(r)
    return f


def int_ext(a, src_t, dbits):
    sb = a.size()
    if dbits > sb:
        return z3.SignExt(dbits - sb, a) if signed_of(src_t) else z3.ZeroExt(dbits - sb, a)
    if dbits < sb:
        return z3.Extract(dbits - 1, 0, a)
    return a


def numkind(t):
    if t in FLOATS:
        return 'float'
    return 'int'     # bool and char behave as 8-bit unsigned numbers in casts


def spec_cast(s_t, d_t):
    def f(args):
        a = args[0]
        sk, dk = numkind(s_t), numkind(d_t)
        db = bits_of(d_t)
        if sk == 'int' and dk == 'int':
            return [], int_ext(a, s_t, db)
        if sk == 'int' and dk == 'float':
            fs = fsort(d_t)
            r = z3.fpSignedToFP(z3.RNE(), a, fs) if signed_of(s_t) else z3.fpUnsignedToFP(z3.RNE(), a, fs)
            return [], z3.fpToIEEEBV(r)
        if sk == 'float' and dk == 'float':
            fa = z3.fpBVToFP(a, fsort(s_t))
            # NaN payloads are not specified by the property: only non-NaN inputs are claimed
            return [z3.Not(z3.fpIsNaN(fa))], z3.fpToIEEEBV(z3.fpFPToFP(z3.RNE(), fa, fsort(d_t)))
        # float -> int: truncation toward zero whenever the truncated value fits the target
        fs = fsort(s_t); fa = z3.fpBVToFP(a, fs)
        sg = signed_of(d_t)
        lo = -(1 << (db - 1)) if sg else 0
        hi1 = (1 << (db - 1)) if sg else (1 << db)
        t = z3.fpRoundToIntegral(z3.RTZ(), fa)
        pre = [z3.Not(z3.fpIsNaN(fa)), z3.Not(z3.fpIsInf(fa)),
               z3.fpGEQ(t, z3.fpRealToFP(z3.RNE(), z3.RealVal(lo), fs))]
        fmax_exp = 128 if s_t == 'f32' else 1024
        if hi1 < (1 << fmax_exp):
            pre.append(z3.fpLT(t, z3.fpRealToFP(z3.RNE(), z3.RealVal(hi1), fs)))
        exp = z3.fpToSBV(z3.RTZ(), fa, z3.BitVecSort(db)) if sg else z3.fpToUBV(z3.RTZ(), fa, z3.BitVecSort(db))
        return pre, exp
    return f


def fits64(a, signed):
    """the 128-bit value a is representable in 64 bits of the same signedness"""
    lo = z3.Extract(63, 0, a)
    return a == (z3.SignExt(64, lo) if signed else z3.ZeroExt(64, lo))


def float_fits64(a, ft, signed):
    """trunc(a) lies in the 64-bit integer range of the given signedness"""
    fs = fsort(ft); fa = z3.fpBVToFP(a, fs)
    t = z3.fpRoundToIntegral(z3.RTZ(), fa)
    lo = -(1 << 63) if signed else 0
    hi1 = (1 << 63) if signed else (1 << 64)
    return z3.And(z3.fpGEQ(t, z3.fpRealToFP(z3.RNE(), z3.RealVal(lo), fs)), z3.fpLT(t, z3.fpRealToFP(z3.RNE(), z3.RealVal(hi1), fs)))


def cast_shape(s_t, d_t):
    sk, dk = numkind(s_t), numkind(d_t)
    if sk == 'int' and dk == 'int':
        sb, db = bits_of(s_t), bits_of(d_t)
        w = 'widen' if db > sb else ('narrow' if db < sb else 'same')
        return 'int-%s-%s->%s' % (w, 'signed' if signed_of(s_t) else 'unsigned', 'signed' if signed_of(d_t) else 'unsigned')
    if sk == 'int':
        w = 'widen' if (32 if d_t == 'f32' else 64) > bits_of(s_t) else 'nowiden'
        return 'int->float-%s-%s' % (w, 'signed' if signed_of(s_t) else 'unsigned')
    if dk == 'int':
        return 'float->int'
    return 'float->float'


def gen_cases(tier):
    cases = []
    allscalar = INTS + FLOATS + ['bool', 'char']

    def binfn(name, t, o):
        if t in BIG:
            return '%s :: (a: ^%s, b: ^%s, r: ^mut %s) { r^ = a^ %s b^; }' % (name, t, t, t, o)
        return '%s :: (a: %s, b: %s) -> %s { a %s b }' % (name, t, t, t, o)

    for t in INTS + BIG:
        big = t in BIG
        for n, o in OPS.items():
            name = '%s_%s' % (n, t)
            if big:
                cases.append(Case(name, binfn(name, t, o), [('ptr', t), ('ptr', t)], None, spec_bin(n, t),
                                  {'kind': 'binop', 'op': n, 'type': t}, out_ptr=t))
            else:
                cases.append(Case(name, binfn(name, t, o), [t, t], t, spec_bin(n, t), {'kind': 'binop', 'op': n, 'type': t}))
        for n, o in CMPS.items():
            name = '%s_%s' % (n, t)
            if big:
                src = '%s :: (a: ^%s, b: ^%s) -> bool { a^ %s b^ }' % (name, t, t, o)
                cases.append(Case(name, src, [('ptr', t), ('ptr', t)], 'bool', spec_cmp(n, t), {'kind': 'cmp', 'op': n, 'type': t}))
            else:
                src = '%s :: (a: %s, b: %s) -> bool { a %s b }' % (name, t, t, o)
                cases.append(Case(name, src, [t, t], 'bool', spec_cmp(n, t), {'kind': 'cmp', 'op': n, 'type': t}))
        if signed_of(t):
            name = 'neg_' + t
            if big:
                cases.append(Case(name, '%s :: (a: ^%s, r: ^mut %s) { r^ = -(a^); }' % (name, t, t), [('ptr', t)], None,
                                  lambda args: ([], -args[0]), {'kind': 'unop', 'op': 'neg', 'type': t}, out_ptr=t))
            else:
                cases.append(Case(name, '%s :: (a: %s) -> %s { -a }' % (name, t, t), [t], t,
                                  lambda args: ([], -args[0]), {'kind': 'unop', 'op': 'neg', 'type': t}))
        name = 'not_' + t
        if big:
            cases.append(Case(name, '%s :: (a: ^%s, r: ^mut %s) { r^ = ~(a^); }' % (name, t, t), [('ptr', t)], None,
                              lambda args: ([], ~args[0]), {'kind': 'unop', 'op': 'not', 'type': t}, out_ptr=t))
        else:
            cases.append(Case(name, '%s :: (a: %s) -> %s { ~a }' % (name, t, t), [t], t,
                              lambda args: ([], ~args[0]), {'kind': 'unop', 'op': 'not', 'type': t}))
    # 128-bit operands passed and returned directly (register pairs), in addition to the by-pointer forms above
    for t in BIG:
        for n, o in (('add', '+'), ('sub', '-'), ('mul', '*'), ('and', '&'), ('xor', '~'), ('shl', '<<'), ('shr', '>>')):
            name = 'v%s_%s' % (n, t)
            cases.append(Case(name, '%s :: (a: %s, b: %s) -> %s { a %s b }' % (name, t, t, t, o), [t, t], t, spec_bin(n, t), {'kind': 'binop-by-value', 'op': n, 'type': t}))
        for n, o in CMPS.items():
            name = 'v%s_%s' % (n, t)
            cases.append(Case(name, '%s :: (a: %s, b: %s) -> bool { a %s b }' % (name, t, t, o), [t, t], 'bool', spec_cmp(n, t), {'kind': 'cmp-by-value', 'op': n, 'type': t}))
        for d in ('i64', 'u8', 'u64'):
            name = 'vcast_%s_%s' % (t, d)
            cases.append(Case(name, '%s :: (a: %s) -> %s { %s.(a) }' % (name, t, d, d), [t], d, spec_cast(t, d), {'kind': 'cast-by-value', 'src': t, 'dst': d}))
            name = 'vcast_%s_%s' % (d, t)
            cases.append(Case(name, '%s :: (a: %s) -> %s { %s.(a) }' % (name, d, t, t), [d], t, spec_cast(d, t), {'kind': 'cast-by-value', 'src': d, 'dst': t}))
    # casts: every ordered pair; int -> bool and float -> bool are outside the claim (the property does not define them)
    for s in allscalar + BIG:
        for d in allscalar + BIG:
            if s == d or d == 'bool':
                continue
            name = 'cast_%s_%s' % (s, d)
            key = {'kind': 'cast', 'src': s, 'dst': d, 'shape': cast_shape(s, d)}
            ncases = len(cases)
            if s in BIG and d in BIG:
                src = '%s :: (a: ^%s, r: ^mut %s) { r^ = %s.(a^); }' % (name, s, d, d)
                cases.append(Case(name, src, [('ptr', s)], None, spec_cast(s, d), key, out_ptr=d))
            elif s in BIG:
                src = '%s :: (a: ^%s) -> %s { %s.(a^) }' % (name, s, d, d)
                cases.append(Case(name, src, [('ptr', s)], d, spec_cast(s, d), key))
            elif d in BIG:
                src = '%s :: (a: %s, r: ^mut %s) { r^ = %s.(a); }' % (name, s, d, d)
                cases.append(Case(name, src, [s], None, spec_cast(s, d), key, out_ptr=d))
            else:
                src = '%s :: (a: %s) -> %s { %s.(a) }' % (name, s, d, d)
                cases.append(Case(name, src, [s], d, spec_cast(s, d), key))
            assert len(cases) == ncases + 1
            if s in BIG and d in FLOATS:
                cases[-1].region = (lambda s_: lambda args: z3.Not(fits64(args[0], signed_of(s_))))(s)
            if s in FLOATS and d in BIG:
                cases[-1].region = (lambda s_, d_: lambda args: z3.Not(float_fits64(args[0], s_, signed_of(d_))))(s, d)
    # implicit widening on return and in mixed-width arithmetic / comparison
    for s in INTS:
        for d in INTS:
            if s == d:
                continue
            sb, db = bits_of(s), bits_of(d)
            fits = (signed_of(s) == signed_of(d) and db > sb) or (not signed_of(s) and signed_of(d) and db > sb)
            if not fits:
                continue
            name = 'widen_%s_%s' % (s, d)
            key = {'kind': 'implicit-widen', 'src': s, 'dst': d, 'shape': cast_shape(s, d)}
            cases.append(Case(name, '%s :: (a: %s) -> %s { a }' % (name, s, d), [s], d, spec_cast(s, d), key))
            name = 'wassign_%s_%s' % (s, d)
            cases.append(Case(name, '%s :: (a: %s) -> %s { x : %s = a; x }' % (name, s, d, d), [s], d, spec_cast(s, d),
                              dict(key, kind='implicit-widen-assign')))
            name = 'mixadd_%s_%s' % (s, d)
            cases.append(Case(name, '%s :: (a: %s, b: %s) -> %s { a + b }' % (name, s, d, d), [s, d], d,
                              (lambda s_, db_: lambda args: ([], int_ext(args[0], s_, db_) + args[1]))(s, db),
                              dict(key, kind='implicit-widen-binop')))
            name = 'mixlt_%s_%s' % (s, d)
            cases.append(Case(name, '%s :: (a: %s, b: %s) -> bool { a < b }' % (name, s, d), [s, d], 'bool',
                              (lambda s_, d_, db_: lambda args: ([], b2bv((int_ext(args[0], s_, db_) < args[1]) if signed_of(d_) else z3.ULT(int_ext(args[0], s_, db_), args[1]))))(s, d, db),
                              dict(key, kind='implicit-widen-cmp')))
    # operands given as untyped literals (defaulting must adopt the other operand's type)
    for t in INTS:
        w = bits_of(t)
        for n, o, c in (('add', '+', 5), ('mul', '*', 3), ('div', '/', 7), ('rem', '%', 10), ('shl', '<<', 3), ('shr', '>>', 1), ('and', '&', 15), ('sub', '-', 1)):
            name = 'lit%s_%s' % (n, t)
            src = '%s :: (a: %s) -> %s { a %s %d }' % (name, t, t, o, c)
            cases.append(Case(name, src, [t], t,
                              (lambda n_, t_, c_, w_: lambda args: spec_bin(n_, t_)([args[0], z3.BitVecVal(c_, w_)]))(n, t, c, w),
                              {'kind': 'binop-literal', 'op': n, 'type': t}))
    # literal operands, systematically: powers of two and other constants on the right of / % * << >> (where a compiler is
    # tempted to strength-reduce), constants on the left, and the compound-assignment spelling
    for t in INTS:
        w = bits_of(t); sg = signed_of(t)
        top = (1 << (w - 1)) - 1 if sg else (1 << w) - 1
        pows = [1 << k for k in range(0, w - (1 if sg else 0))]
        if tier == 'quick':
            pows = [p for p in pows if p in (1, 2, 4, 8, 64) or p == pows[-1]]
            others = [3, 10, 100]
        else:
            others = [3, 5, 6, 7, 9, 10, 12, 100, 127, top]
        consts = sorted({c for c in pows + others if 0 < c <= top and c < (1 << 63)})
        for n, o in (('div', '/'), ('rem', '%'), ('mul', '*')):
            for c in consts:
                name = 'k%s_%s_%d' % (n, t, c)
                cases.append(Case(name, '%s :: (a: %s) -> %s { a %s %d }' % (name, t, t, o, c), [t], t,
                                  (lambda n_, t_, c_, w_: lambda args: spec_bin(n_, t_)([args[0], z3.BitVecVal(c_, w_)]))(n, t, c, w),
                                  {'kind': 'binop-literal', 'op': n, 'type': t, 'literal': 'power-of-two' if c & (c - 1) == 0 else 'other'}))
            for c in ([2, 8] if tier == 'quick' else [2, 4, 8, 64, 3, 10]):
                if c > top:
                    continue
                name = 'ka%s_%s_%d' % (n, t, c)
                cases.append(Case(name, '%s :: (a: %s) -> %s { x := a; x %s= %d; x }' % (name, t, t, o, c), [t], t,
                                  (lambda n_, t_, c_, w_: lambda args: spec_bin(n_, t_)([args[0], z3.BitVecVal(c_, w_)]))(n, t, c, w),
                                  {'kind': 'binop-literal-assign', 'op': n, 'type': t, 'literal': 'power-of-two' if c & (c - 1) == 0 else 'other'}))
        for n, o in (('shl', '<<'), ('shr', '>>')):
            for c in sorted({0, 1, 3, w // 2, w - 1}):
                name = 'k%s_%s_%d' % (n, t, c)
                cases.append(Case(name, '%s :: (a: %s) -> %s { a %s %d }' % (name, t, t, o, c), [t], t,
                                  (lambda n_, t_, c_, w_: lambda args: spec_bin(n_, t_)([args[0], z3.BitVecVal(c_, w_)]))(n, t, c, w),
                                  {'kind': 'binop-literal', 'op': n, 'type': t, 'literal': 'shift-amount'}))
        for n, o in (('div', '/'), ('rem', '%'), ('sub', '-'), ('shl', '<<'), ('shr', '>>')):
            for c in ([1, 100] if tier == 'quick' else [1, 2, 64, 100, top]):
                if c > top or c >= (1 << 63):
                    continue
                name = 'kl%s_%s_%d' % (n, t, c)
                cases.append(Case(name, '%s :: (a: %s) -> %s { %d %s a }' % (name, t, t, c, o), [t], t,
                                  (lambda n_, t_, c_, w_: lambda args: spec_bin(n_, t_)([z3.BitVecVal(c_, w_), args[0]]))(n, t, c, w),
                                  {'kind': 'binop-literal-left', 'op': n, 'type': t}))
    # booleans
    B = 'bool'
    bspecs = [('band', 'a & b', lambda a: ([], a[0] & a[1])), ('bor', 'a | b', lambda a: ([], a[0] | a[1])),
              ('land', 'a && b', lambda a: ([], a[0] & a[1])), ('lor', 'a || b', lambda a: ([], a[0] | a[1])),
              ('beq', 'a == b', lambda a: ([], b2bv(a[0] == a[1]))), ('bne', 'a != b', lambda a: ([], b2bv(a[0] != a[1])))]
    for n, e, sp in bspecs:
        cases.append(Case(n, '%s :: (a: bool, b: bool) -> bool { %s }' % (n, e), [B, B], B, sp, {'kind': 'bool', 'op': n}))
    cases.append(Case('bnot', 'bnot :: (a: bool) -> bool { !a }', [B], B, lambda a: ([], a[0] ^ 1), {'kind': 'bool', 'op': 'not'}))
    for n, o in (('eq', '=='), ('ne', '!=')):      # README: order comparison is not defined for char
        name = 'c%s' % n
        cases.append(Case(name, '%s :: (a: char, b: char) -> bool { a %s b }' % (name, o), ['char', 'char'], B,
                          spec_cmp(n, 'u8'), {'kind': 'cmp', 'op': n, 'type': 'char'}))
    # float comparisons (claimed: comparisons and conversions; float arithmetic results are outside the claim)
    for t in FLOATS:
        for n, o in CMPS.items():
            name = 'f%s_%s' % (n, t)

            def sp(args, n=n, t=t):
                fa, fb = z3.fpBVToFP(args[0], fsort(t)), z3.fpBVToFP(args[1], fsort(t))
                r = {'lt': z3.fpLT(fa, fb), 'le': z3.fpLEQ(fa, fb), 'gt': z3.fpGT(fa, fb), 'ge': z3.fpGEQ(fa, fb),
                     'eq': z3.fpEQ(fa, fb), 'ne': z3.Not(z3.fpEQ(fa, fb))}[n]
                return [], b2bv(r)
            cases.append(Case(name, '%s :: (a: %s, b: %s) -> bool { a %s b }' % (name, t, t, o), [t, t], B, sp,
                              {'kind': 'fcmp', 'op': n, 'type': t}))
    return cases


def template_source(cases):
    lines = [clifcheck.PRELUDE] + [c.src for c in cases]
    refs = '\n'.join('    p%d := %s;' % (i, c.name) for i, c in enumerate(cases))
    return '\n'.join(lines) + '\n', 'refs :: () {\n' + refs + '\n}\n'


def compile_cases(chk, cases, name):
    """returns (module, accepted cases, template source w/o main); compile failures are bisected and reported"""
    def attempt(cs, nm):
        src, refs = template_source(cs)
        full = src + refs + 'main :: () { refs(); }\n'
        mod, out = clifcheck.compile_module('C08', nm, full)
        return mod, out, src

    mod, out, src = attempt(cases, name)
    if mod is not None:
        return mod, cases, src
    bad = []

    def bisect(cs):
        m, o, _ = attempt(cs, name + '_bisect')
        if m is not None:
            return
        if len(cs) == 1:
            bad.append((cs[0], o)); return
        h = len(cs) // 2
        bisect(cs[:h]); bisect(cs[h:])
    bisect(cases)
    if not bad:
        raise Inconclusive('template rejected as a whole but every function compiles alone:\n' + out[-800:])
    good = [c for c in cases if c not in [b for b, _ in bad]]
    for c, o in bad:
        full = clifcheck.PRELUDE + c.src + '\nmain :: () { p := %s; }\n' % c.name
        key = dict(c.key, failure='compile')
        first = [l for l in o.splitlines() if 'Unsupported' in l or 'panicked' in l or l.startswith('error')][:1]
        what = 'well-typed function `%s` is not compiled: %s' % (c.src, first[0][:200] if first else 'compiler failed')
        path = replaylib.make_compile_replay('C08', 'compile_' + c.name, full, o, what, key)
        chk.report(key, what, path)
        chk.cov['disagreements_checked'] = chk.cov.get('disagreements_checked', 0) + 1
    mod, out, src = attempt(good, name)
    if mod is None:
        raise Inconclusive('template still rejected after removing failing functions:\n' + out[-800:])
    return mod, good, src


def setup_state(eng, case):
    """symbolic arguments for a case: scalars as bit-vectors, by-pointer operands as fresh regions"""
    st = State()
    args = []; vals = []; pre = []
    for i, p in enumerate(case.params):
        if isinstance(p, tuple):
            t = p[1]; n = bits_of(t) // 8
            r = eng.add_region(st, n, 'in%d' % i)
            v = z3.BitVec('a%d' % i, bits_of(t))
            m = st.mem
            for k in range(n):
                m = z3.Store(m, z3.BitVecVal(r.lo + k, 64), z3.Extract(8 * k + 7, 8 * k, v))
            st.mem = m
            args.append(z3.BitVecVal(r.lo, 64)); vals.append(v)
        else:
            v = z3.BitVec('a%d' % i, bits_of(p))
            if p == 'bool':
                pre.append(z3.ULE(v, 1))
            args.append(v); vals.append(v)
    out_region = None
    if case.out_ptr:
        n = bits_of(case.out_ptr) // 8
        out_region = eng.add_region(st, n, 'out')
        args.append(z3.BitVecVal(out_region.lo, 64))
    return st, args, vals, pre, out_region


def result_of(eng, case, path, out_region):
    if case.out_ptr:
        return eng.load(path, z3.BitVecVal(out_region.lo, 64), bits_of(case.out_ptr) // 8)
    return path.ret[0]


def native_args(case, values):
    """NativeBatch argument list for concrete operand bit patterns"""
    a = []
    for p, v in zip(case.params, values):
        if isinstance(p, tuple):
            a.append((('ptr', p[1], bits_of(p[1]) // 8, False), v))
        else:
            a.append((p, v))
    ptr_args = []
    if case.out_ptr:
        nb = bits_of(case.out_ptr) // 8
        a.append((('ptr', case.out_ptr, nb, True), 0))
        ptr_args.append((len(a) - 1, nb))
    return a, ptr_args


def native_result(case, vals_list):
    if vals_list is None:
        return None
    ints = [v for v in vals_list if isinstance(v, int)]
    if case.out_ptr:
        nb = bits_of(case.out_ptr) // 8
        words = (nb + 7) // 8
        ws = ints[-words:]
        return sum(w << (64 * i) for i, w in enumerate(ws)) & ((1 << (8 * nb)) - 1)
    if bits_of(case.ret) > 64:
        return ints[0] | (ints[1] << 64)
    return ints[0] & ((1 << bits_of(case.ret)) - 1)


def comptime_terms(chk, tier, rnd):
    """'Evaluated both at runtime and inside comptime': closed expressions over boundary operands are evaluated by a
    `comptime { .. }` block and by ordinary run-time code in the same program and compared at full width. The run-time
    side is what the symbolic part of this check ties to the specification for ALL operand values; these are closed
    terms (no inputs), recorded as such."""
    import os
    from lib import replay as replaylib
    types = ['i8', 'i16', 'i32', 'i64', 'u8', 'u16', 'u32', 'u64', 'i128', 'u128']
    per_op = 3 if tier == 'quick' else 12
    terms = []
    for t in types:
        w = bits_of(t)
        ops = ['T.(0)', 'T.(1)', 'T.(2)', '(T.(0) - T.(1))', '(T.(1) << T.(%d))' % (w - 1), '(~(T.(1) << T.(%d)))' % (w - 1), 'T.(%d)' % rnd.randint(3, 120),
               '(T.(%d) * T.(%d))' % (rnd.randint(3, 11), rnd.randint(3, 11)), '((T.(0) - T.(1)) - T.(%d))' % rnd.randint(1, 100), '(T.(1) << T.(%d))' % (w - 2)]
        ops = [o.replace('T', t) for o in ops]
        for name, o in (('add', '+'), ('sub', '-'), ('mul', '*'), ('and', '&'), ('or', '|'), ('xor', '~')):
            for _ in range(per_op):
                terms.append((t, '%s %s %s' % (rnd.choice(ops), o, rnd.choice(ops)), 'binop-' + name))
        for name, o in (('shl', '<<'), ('shr', '>>')):
            for _ in range(per_op):
                terms.append((t, '%s %s %s.(%d)' % (rnd.choice(ops), o, t, rnd.randint(0, w - 1)), 'binop-' + name))
        if w <= 64:       # `/` and `%` on 128-bit integers are not compiled at all (known finding)
            for name, o in (('div', '/'), ('rem', '%')):
                for _ in range(per_op):
                    terms.append((t, '%s %s %s.(%d)' % (rnd.choice(ops), o, t, rnd.randint(1, 100)), 'binop-' + name))
        for o in ('<', '<=', '>', '>=', '==', '!='):
            terms.append(('bool', '%s %s %s' % (rnd.choice(ops), o, rnd.choice(ops)), 'cmp'))
        for d in rnd.sample(types, 4 if tier == 'quick' else len(types)):
            if d != t:
                terms.append((d, '%s.(%s)' % (d, rnd.choice(ops)), 'cast-%s-to-%s' % (t, d)))
    lines = [clifcheck.PRELUDE]
    for k, (t, e, _) in enumerate(terms):
        lines.append('ct_%d :: () -> bool { a : %s = comptime { %s }; b : %s = %s; a == b }' % (k, t, e, t, e))
    body = '\n'.join('    if !ct_%d() { out_hex(%d); }' % (k, k) for k in range(len(terms)))
    src = '\n'.join(lines) + '\nmain :: () -> i32 {\n%s\n    putchar(59); putchar(10);\n    0\n}\n' % body
    wd = common.workdir('C08')
    open(os.path.join(wd, 'comptime_terms.capy'), 'w').write(src)
    res = common.capy_native('comptime_terms.capy', wd, timeout=600)
    chk.cov['closed_terms'] = {'comptime_vs_runtime_terms': len(terms), 'built': res['rc'] is not None}
    if res['rc'] is None:
        first = [l for l in res['build_out'].splitlines() if 'panicked' in l or l.startswith('error')][:2]
        raise Inconclusive('the comptime/runtime term program was not built: %s' % (' / '.join(first)[:300] or res['build_out'][-300:]))
    failing = [int(l, 16) for l in res['stdout'].split('\n') if len(l) == 16 and all(c in '0123456789abcdef' for c in l)]
    if not res['stdout'].rstrip().endswith(';'):
        raise Inconclusive('the comptime/runtime term program did not run to its end (rc %r)' % (res['rc'],))
    chk.cov['closed_terms']['disagreeing_terms'] = len(failing)
    seen = set()
    for k in failing:
        t, e, kind = terms[k]
        cls = kind.split('-')[0] + ('-128-bit' if '128' in (t + kind) else '')
        if cls in seen:
            continue
        seen.add(cls)
        key = {'kind': 'comptime-vs-runtime', 'class': cls}
        what = 'the closed term `%s` (at type %s) evaluates differently inside `comptime { }` and at run time (%d of %d terms disagree)' % (e, t, len(failing), len(terms))
        one = clifcheck.PRELUDE + 'main :: () -> i32 { a : %s = comptime { %s }; b : %s = %s; if a == b { 0 } else { 1 } }\n' % (t, e, t, e)
        chk.report(key, what, replaylib.make_native_replay('C08', 'comptime_%d' % k, one, None, 0, '', 1, what, key))


def run(chk, tier, seed):
    common.build_capy()
    rnd = random.Random(seed)
    comptime_terms(chk, tier, random.Random(seed + 1))
    cases = gen_cases(tier)
    mod, cases, tsrc = compile_cases(chk, cases, 'ops')
    chk.opcodes.update(mod.opcodes)
    prover = Prover(chk, timeout_ms=60000 if tier == 'quick' else 600000)
    programs = 0; disagreements = 0; paths_total = 0
    skipped_slow = []
    for c in cases:
        eng = Engine(mod)
        st, args, vals, pre, out_region = setup_state(eng, c)
        st.pc.extend(pre)
        try:
            paths = eng.run(mod.by_pretty(c.name), args, st)
        except Unsupported as e:
            raise Inconclusive('%s: %s' % (c.name, e))
        chk.funcs_encoded.update(eng.funcs_run)
        chk.solver_s += eng.solver_s
        chk.cov['ir_instructions_executed'] = chk.cov.get('ir_instructions_executed', 0) + eng.steps_total
        programs += 1
        spre, expected = c.spec(vals)
        for p in paths:
            paths_total += 1
            if p.status == 'bound':
                raise Inconclusive(c.name + ': path cut at bound')
            hyps = list(p.pc) + list(spre)
            if p.status != 'ret':
                # a path that leaves by abort/trap under the precondition: must be infeasible
                r, model = prover.prove(hyps, z3.BoolVal(False))
            else:
                got = result_of(eng, c, p, out_region)
                if got.size() != expected.size():
                    raise Inconclusive('%s: result width %d, spec width %d' % (c.name, got.size(), expected.size()))
                r, model = prover.prove(hyps, got == expected)
            if p.wild:
                chk.cov.setdefault('wild_writes', []).append({'fn': c.name, 'wild': p.wild[:2]})
            if r == 'unsat':
                chk.sample({'function': c.src, 'obligation': 'forall operands: result == spec', 'verdict': 'unsat (holds)'}, limit=8)
                continue
            if r == 'unknown':
                chk.inconclusive_note('%s: solver gave no verdict within the cap' % c.name)
                continue
            disagreements += 1
            key = dict(c.key)
            if c.region is not None:
                # is the failure confined to the operand region of a listed finding?
                r2, model2 = prover.prove(hyps + [z3.Not(c.region(vals))], got == expected)
                if r2 == 'unsat':
                    key['region'] = 'only-outside-64-bit-range'
                elif r2 == 'sat':
                    key['region'] = 'inside-64-bit-range'; model = model2
                else:
                    chk.inconclusive_note('%s: no verdict on the region refinement' % c.name); continue
            concrete = [model_val(model, v) for v in vals]
            exp_val = model_val(model, expected)
            nargs, ptr_args = native_args(c, concrete)
            nb = clifcheck.NativeBatch('C08', 'replay_' + c.name, tsrc)
            nb.add(c.name, nargs, c.ret, ptr_args)
            res = nb.run()
            obs = native_result(c, res[0]) if res else None
            what = '%s with operands %s: language semantics give %#x, the built program computes %s' % (
                c.src, [hex(x) for x in concrete], exp_val, hex(obs) if obs is not None else 'nothing (died)')
            if obs is None or obs == exp_val:
                chk.inconclusive_note('model for %s did not reproduce natively (%s)' % (c.name, what))
                continue
            width = 16 * ((bits_of(c.out_ptr or c.ret) + 63) // 64)
            exp_lines = ''.join('%016x\n' % ((exp_val >> (64 * i)) & (2**64 - 1)) for i in range(width // 16)) + ';\n'
            path = replaylib.make_native_replay('C08', c.name, nb.source(), exp_lines, 0, nb.last['stdout'], nb.last['rc'], what, key)
            chk.report(key, what, path)
    # differential validation of the executor against native execution on concrete operands
    validated = validate(chk, mod, cases, tsrc, rnd, 150 if tier == 'quick' else 600)
    chk.cov.update({'programs': programs, 'disagreements_checked': chk.cov.get('disagreements_checked', 0) + disagreements,
                    'paths': paths_total, 'traces_validated_against_impl': validated,
                    'explanation': 'programs = Capy functions (one per type x operator / cast pair / implicit conversion) whose CLIF was executed symbolically; each has one obligation proved for all operand values'})
    chk.bounds.update({'operand_values': 'all (symbolic bit-vectors of the full width)',
                       'types': INTS + BIG + FLOATS + ['bool', 'char'],
                       'outside_claim': ['float arithmetic results', 'casts to bool', 'NaN payloads in f32<->f64', 'division by zero, MIN/-1, shift amounts >= width', 'comptime evaluation of the same operators']})
    chk.assumptions.extend(['Cranelift lowers each CLIF opcode as documented (transcribed in engine/clifsym/exec.py)',
                            'z3 4.x bit-vector and floating-point theories', 'bool arguments hold 0 or 1'])


def boundary_values(t, rnd):
    w = bits_of(t)
    m = (1 << w) - 1
    vals = [0, 1, m, 1 << (w - 1), (1 << (w - 1)) - 1, (1 << (w - 1)) + 1, m - 1, 2, 3, 1 << (w // 2)]
    vals += [rnd.getrandbits(w) for _ in range(3)]
    if t == 'bool':
        return [0, 1]
    if t in FLOATS:
        import struct
        fl = [0.0, -0.0, 1.0, -1.0, 1.5, -2.5, 255.0, 256.0, 65535.9, 1e9, -1e9, 3.0e38 if t == 'f32' else 1e300, 0.1, 2147483648.0, 4294967296.0]
        out = []
        for x in fl:
            out.append(struct.unpack('<I', struct.pack('<f', x))[0] if t == 'f32' else struct.unpack('<Q', struct.pack('<d', x))[0])
        return out
    return [v & m for v in vals]


def validate(chk, mod, cases, tsrc, rnd, n):
    """same concrete operands through the symbolic executor and through the natively built program"""
    picks = []
    tries = 0
    while len(picks) < n and tries < 20 * n:
        tries += 1
        c = rnd.choice(cases)
        concrete = []
        for p in c.params:
            t = p[1] if isinstance(p, tuple) else p
            concrete.append(rnd.choice(boundary_values(t, rnd)))
        vals = [z3.BitVecVal(v, bits_of(p[1] if isinstance(p, tuple) else p)) for v, p in zip(concrete, c.params)]
        spre, _ = c.spec(vals)
        if not all(z3.is_true(z3.simplify(h)) for h in spre):
            continue
        picks.append((c, concrete))
    nb = clifcheck.NativeBatch('C08', 'validate', tsrc)
    for c, concrete in picks:
        nargs, ptr_args = native_args(c, concrete)
        nb.add(c.name, nargs, c.ret, ptr_args)
    res = nb.run()
    if res is None:
        raise Inconclusive('validation program did not build: ' + nb.last['build_out'][-500:])
    ok = 0
    for (c, concrete), r in zip(picks, res):
        nat = native_result(c, r)
        eng = Engine(mod)
        st, args, vals, pre, out_region = setup_state(eng, c)
        subst = [(v, z3.BitVecVal(x, v.size())) for v, x in zip(vals, concrete)]
        st.mem = z3.substitute(st.mem, *subst)
        args = [z3.substitute(a, *subst) if not z3.is_bv_value(a) else a for a in args]
        paths = eng.run(mod.by_pretty(c.name), args, st)
        if len(paths) != 1 or paths[0].status != 'ret':
            raise Inconclusive('validation: concrete run of %s gave %d paths' % (c.name, len(paths)))
        got = z3.simplify(result_of(eng, c, paths[0], out_region))
        if not z3.is_bv_value(got):
            raise Inconclusive('validation: concrete run of %s did not produce a constant' % c.name)
        if nat is None or got.as_long() != nat:
            raise Inconclusive('executor and native execution disagree on %s%s: executor %#x native %s — the CLIF semantics transcription is wrong'
                               % (c.name, [hex(x) for x in concrete], got.as_long(), hex(nat) if nat is not None else None))
        ok += 1
    return ok


def replay(path):
    return replaylib.run_replay(path)
