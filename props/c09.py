"""C09 — literals denote exactly their written values or are rejected (kernels; the rest labelled as closed terms).

(1) Engine A on Ty::get_max_int_size: for every integer type (signed/unsigned x widths 8..128) the maximum the
    checker uses for the literal range rule equals min(2^(w-s) - 1, 2^64 - 1)  [harness_max_int].
(2) Engine A on the real lexer over the numeric-literal alphabet `0-9 a-f x b _ e E . + -` (ALL strings up to the
    stated length): a text that matches one of the Int/Hex/Bin/Float regexes of tokenizer.txt is exactly one token of
    that kind, and a text that matches none is never a single literal token  [harness_lex_literal].
(3) Closed terms (enumeration, recorded as closed_terms, not as solver verdicts): boundary literals (MAX-1, MAX,
    MAX+1 per width, 2^31, 2^32, 2^63; `_`, `e`, hex, binary; annotated, unannotated local/global, in arithmetic) are
    compiled by the real compiler; acceptance must equal "value <= max(T)" and the compiled function, executed on its
    CLIF, must return the spelled value.
Escape decoding and lower_int_literal themselves live inside the lowering context and are outside (1)/(2).
"""
import random
import z3

from lib import common, clifcheck, llcheck, strcheck, replay as replaylib
from lib.common import Inconclusive
from lib.llcheck import BUF, Job, explore, model_of, eval_inputs
from lib.strcheck import Part, build_for, judge_zero
from engine.llsym import State, is_sym
from engine.clifsym import Engine as ClifEngine, State as ClifState, Unsupported

LEVEL = 'model_checking'
LIT_ALPHABET = b'019afxbeE_.+-'


def part1(chk, mod, so):
    def build(part):
        signed, width = part
        st = State()
        out = BUF + 64
        for i in range(8):
            st.mem[out + i] = 0
        return st, [signed, width, out], {'signed': signed, 'width': width}

    def judge(ex, p, inputs):
        if p.end[0] != 'ret':
            return {'what': '%s' % (p.end,), 'inputs': dict(inputs)}
        has = p.end[1]
        v = 0
        for i in range(8):
            b = p.mem.get(BUF + 64 + i, 0)
            v |= (b if not is_sym(b) else 0) << (8 * i)
        s, w = inputs['signed'], inputs['width']
        wbits = 64 if w == 255 else w      # isize/usize: pointer width of the host target
        want = min((1 << (wbits - s)) - 1, (1 << 64) - 1)
        if has != 1 and want == (1 << 64) - 1:
            return None          # no bound at all is the same as the bound 2^64-1: every literal is < 2^64
        if has != 1 or v != want:
            return {'what': 'get_max_int_size(%s%d) = %s, the range rule needs %d' % ('i' if s else 'u', w, v if has == 1 else None, want), 'inputs': dict(inputs), 'code': 'max'}
        return None
    parts = [(s, w) for s in (0, 1) for w in (8, 16, 32, 64, 128, 255)]
    tot = explore(chk, mod, Job('@harness_max_int', build, judge), parts, nproc=1)
    for v in tot['violations']:
        s, w = v['inputs']['signed'], v['inputs']['width']
        tname = ('isize' if s else 'usize') if w == 255 else '%s%d' % ('i' if s else 'u', w)
        key = {'kind': 'max-int', 'type': tname}
        wbits = 64 if w == 255 else w
        want = min((1 << (wbits - s)) - 1, (1 << 64) - 1)
        # the boundary program: MAX must be accepted and MAX+1 rejected
        lit_ok = want; lit_bad = want + 1 if want + 1 < (1 << 64) else None
        src = 'main :: () -> i32 {\n    x : %s = %d;\n    0\n}\n' % (tname, lit_ok)
        wd = common.workdir('C09')
        open(wd + '/maxint.capy', 'w').write(src)
        rc, out = common.capy_dump('maxint.capy', wd)
        rejected = rc != 0 or common.compiler_rejected(out)
        what = '%s; the program `x : %s = %d;` is %s' % (v['what'], tname, lit_ok, 'rejected' if rejected else 'accepted')
        if not rejected and lit_bad is not None:
            src2 = 'main :: () -> i32 {\n    x : %s = %d;\n    0\n}\n' % (tname, lit_bad)
            open(wd + '/maxint.capy', 'w').write(src2)
            rc2, out2 = common.capy_dump('maxint.capy', wd)
            if not (rc2 != 0 or common.compiler_rejected(out2)):
                what = '%s; the program `x : %s = %d;` (MAX+1) is accepted' % (v['what'], tname, lit_bad)
                path = replaylib.make_native_replay('C09', 'maxint_' + tname, src2, None, None, '', 0, what, key)
                chk.report(key, what, path)
                continue
        if not rejected:
            chk.inconclusive_note('did not reproduce through the compiler: ' + what); continue
        path = replaylib.make_compile_replay('C09', 'maxint_' + tname, src, out, what, key)
        chk.report(key, what, path)


def part2(chk, mod, so, tier):
    nmax = 4 if tier == 'quick' else 5
    parts = []
    for n in range(1, nmax + 1):
        parts += strcheck.ascii_parts(n, LIT_ALPHABET, chunks=13)
    tot = explore(chk, mod, Job('@harness_lex_literal', build_for(()), judge_zero), parts, nproc=16)
    for v in tot['violations'][:10]:
        text = bytes(v['inputs']['text'])
        args = [('bytes', list(text)), ('int', len(text), 'c_size_t')]
        r = llcheck.native_call(so, '@harness_lex_literal', args, ret='c_uint32')
        what = 'lexing the literal text %r: %s (1 = not one token, 2 = wrong literal kind, 3 = a non-literal lexed as one literal token); native %r' % (text, v['what'], r)
        if r[0] == 'ret' and r[1] == 0:
            chk.inconclusive_note('model did not reproduce natively: ' + what); continue
        key = {'kind': 'literal-lexing', 'code': str(v['code'])}
        path = llcheck.make_harness_replay('C09', 'lit_%d' % len(chk.violations), 'llharness', '@harness_lex_literal', args, what, key, ret='c_uint32')
        chk.report(key, what, path)
    return nmax


TYPES = [('i8', 8, 1), ('i16', 16, 1), ('i32', 32, 1), ('i64', 64, 1), ('u8', 8, 0), ('u16', 16, 0), ('u32', 32, 0), ('u64', 64, 0), ('i128', 128, 1), ('u128', 128, 0), ('isize', 64, 1), ('usize', 64, 0)]


def spellings(v, rnd):
    s = [str(v)]
    d = str(v)
    if len(d) > 3:
        s.append(d[:-3] + '_' + d[-3:])
    s.append(hex(v)); s.append(bin(v))
    if v % 1000 == 0 and v > 0:
        s.append('%de3' % (v // 1000))
    return s


def part3(chk, tier, rnd):
    common.build_capy()
    closed = []
    cases = []
    for t, w, sg in TYPES:
        mx = min((1 << (w - sg)) - 1, (1 << 64) - 1)
        for v in sorted({0, 1, mx - 1, mx, mx + 1, 1 << 31, 1 << 32, 1 << 63, 255, 256, 65535, 65536, 1000, 2000000000}):
            if v >= (1 << 64) or v < 0:
                continue
            for sp in spellings(v, rnd)[: (2 if tier == 'quick' else 5)]:
                cases.append((t, w, sg, v, sp, 'annotated'))
    for v in (0, 5, 2147483647, 2147483648, 4294967295, 4294967296, 1 << 62):
        cases.append((None, 64, 0, v, str(v), 'unannotated-local'))
        cases.append((None, 64, 0, v, str(v), 'unannotated-global'))
        cases.append((None, 64, 0, v, str(v), 'arithmetic'))
    # unannotated locals that never meet a typed context: the defaulting rules alone decide their type
    for v in (5, 2147483647, 2147483648, 3000000000, 4294967295, 4294967296, 1 << 40):
        cases.append((None, 64, 0, v, str(v), 'untyped-compare'))
        cases.append((None, 64, 0, v, str(v), 'untyped-divide'))
    # an unannotated local whose type is decided by a LATER literal assignment (and by a compound assignment)
    for v in (7, 2147483647, 2147483648, 3000000000, 4294967296, 1 << 40, (1 << 63) - 1, (1 << 64) - 1):
        cases.append((None, 64, 0, v, str(v), 'untyped-reassign'))
        cases.append((None, 64, 0, v, str(v), 'untyped-reassign-twice'))
    # literals at a `distinct` integer type (and a distinct of a distinct): the range rule of the underlying type applies
    for t, w, sg in (('u8', 8, 0), ('i16', 16, 1), ('u32', 32, 0), ('i64', 64, 1), ('i8', 8, 1)):
        mx = (1 << (w - sg)) - 1
        for v in (mx - 1, mx, mx + 1, mx + 45):
            cases.append((t, w, sg, v, str(v), 'annotated-distinct'))
            cases.append((t, w, sg, v, str(v), 'annotated-distinct-distinct'))
    # integer literals used at a float type, as global and as local (small values are exact in both float types)
    for v in (0, 1, 5, 255, 65536, 16777216):
        for ft in ('f32', 'f64'):
            cases.append((ft, 64, 0, v, str(v), 'float-global'))
            cases.append((ft, 64, 0, v, str(v), 'float-local'))
    bad = 0
    for i, (t, w, sg, v, sp, how) in enumerate(cases):
        if how == 'annotated':
            ut = {8: 'u8', 16: 'u16', 32: 'u32', 64: 'u64', 128: 'u128'}[w]
            # the function returns the literal's value through memory so that every width is observable
            src = 'lit :: (r: ^mut %s) { x : %s = %s; r^ = x; }\nmain :: () { p := lit; }\n' % (t, t, sp)
            fits = v <= min((1 << (w - sg)) - 1, (1 << 64) - 1)
        elif how == 'unannotated-local':
            src = 'lit :: (r: ^mut u64) { x := %s; r^ = u64.(x); }\nmain :: () { p := lit; }\n' % sp
            fits = True; w = 64
        elif how == 'unannotated-global':
            src = 'G :: %s;\nlit :: (r: ^mut u64) { r^ = u64.(G); }\nmain :: () { p := lit; }\n' % sp
            fits = True; w = 64
        elif how == 'untyped-compare':
            # the written value is > 1, so `x > 1` must hold; observed value: 7 when it holds, 0 otherwise
            src = 'lit :: (r: ^mut u64) { x := %s; r^ = 0; if x > 1 { r^ = 7; } }\nmain :: () { p := lit; }\n' % sp
            fits = True; w = 64; v = 7
        elif how in ('annotated-distinct', 'annotated-distinct-distinct'):
            decl = 'D1 :: distinct %s;\n' % t + ('D :: distinct D1;\n' if how.endswith('distinct-distinct') else 'D :: distinct D1;\n'.replace('distinct D1', 'distinct %s' % t))
            src = decl + 'lit :: (r: ^mut %s) { x : D = %s; r^ = %s.(x); }\nmain :: () { p := lit; }\n' % (t, sp, t)
            fits = v <= (1 << (w - sg)) - 1
        elif how == 'float-global':
            src = 'G : %s : %s;\nlit :: (r: ^mut u64) { r^ = u64.(G); }\nmain :: () { p := lit; }\n' % (t, sp)
            fits = True; w = 64
        elif how == 'float-local':
            src = 'lit :: (r: ^mut u64) { g : %s = %s; r^ = u64.(g); }\nmain :: () { p := lit; }\n' % (t, sp)
            fits = True; w = 64
        elif how == 'untyped-reassign':
            # nothing but literals ever gives x a type (a cast such as u64.(x) would); the written value is > 5
            src = 'lit :: (r: ^mut u64) { x := 5; x = %s; r^ = 0; if x > 5 { r^ = 7; } }\nmain :: () { p := lit; }\n' % sp
            fits = True; w = 64; v = 7
        elif how == 'untyped-reassign-twice':
            src = 'lit :: (r: ^mut u64) { x := 5; x = 9; x = %s; y := x; r^ = 0; if y / 2 > 2 { r^ = 7; } }\nmain :: () { p := lit; }\n' % sp
            fits = True; w = 64; v = 7
        elif how == 'untyped-divide':
            src = 'lit :: (r: ^mut u64) { x := %s; r^ = 0; if x / 2 > 0 { r^ = 7; } }\nmain :: () { p := lit; }\n' % sp
            fits = True; w = 64; v = 7
        else:
            src = 'lit :: (r: ^mut u64) { x : u64 = 1; r^ = x + %s - 1; }\nmain :: () { p := lit; }\n' % sp
            fits = True; w = 64
        mod, out = clifcheck.compile_module('C09', 'lit', src)
        accepted = mod is not None
        crashed = 'panicked at' in out
        rec = {'type': t, 'spelling': sp, 'use': how, 'value': v, 'should_be_accepted': fits if how.startswith('annotated') else None, 'accepted': accepted}
        # without an annotation the type comes from the defaulting rules: only "accepted => keeps its value" is required
        ok = ((accepted == fits) if how.startswith('annotated') else True) and not crashed
        got = None
        if accepted:
            eng = ClifEngine(mod, max_visits=4)
            st = ClifState()
            reg = eng.add_region(st, 16, 'out')
            try:
                paths = eng.run(mod.by_pretty('lit'), [z3.BitVecVal(reg.lo, 64)], st)
            except Unsupported as e:
                # globals are loaded from data objects the dump does not contain: fall back to a native run
                paths = None
            if paths is not None and len(paths) == 1 and paths[0].status == 'ret':
                val = z3.simplify(eng.load(paths[0], z3.BitVecVal(reg.lo, 64), w // 8))
                got = val.as_long() if z3.is_bv_value(val) else None
            if got is None:
                nb = clifcheck.NativeBatch('C09', 'lit_native', clifcheck.PRELUDE + src.replace('main :: () { p := lit; }\n', ''))
                nb.add('lit', [(('ptr', 'u64' if (t is None or how.startswith('float')) else t, w // 8, True), 0)], None, [(0, w // 8)])
                res = nb.run()
                if res and res[0]:
                    ints = [x for x in res[0] if isinstance(x, int)]
                    got = sum(x << (64 * k) for k, x in enumerate(ints)) & ((1 << w) - 1)
            rec['value_at_runtime'] = got
            if fits and got != v:
                ok = False
        closed.append(rec)
        if not ok:
            bad += 1
            key = {'kind': 'literal-closed-term', 'use': how, 'type': t, 'value_class': 'max+1' if not fits else 'fits'}
            if t in ('isize', 'usize') and not fits:
                key = {'kind': 'max-int', 'type': t}
            what = 'literal `%s` (%d) used as %s%s: should be %s, compiler %s%s' % (sp, v, how, ' at type ' + t if t else '', 'accepted' if fits else 'rejected',
                                                                          'accepts' if accepted else 'rejects', ', runtime value %r' % got if accepted else '')
            path = replaylib.make_compile_replay('C09', 'closed_%d' % i, src, out, what, key) if not accepted else \
                replaylib.make_native_replay('C09', 'closed_%d' % i, src, None, None, '', 0, what, key)
            chk.report(key, what, path)
    chk.cov['closed_terms'] = closed[:40]
    chk.cov['closed_terms_count'] = len(closed)
    return len(closed)


def run(chk, tier, seed):
    rnd = random.Random(seed)
    ll, so = llcheck.build_harness('llharness')
    mod = llcheck.load_module(ll)
    cases = [b'0x1F', b'0b10', b'1_0e3', b'.5', b'1e', b'0x', b'1.5e-3', b'12', b'e1', b'1__2']
    llcheck.selftest(chk, mod, so, '@harness_lex_literal', strcheck.concrete_state, lambda t: [('bytes', list(t)), ('int', len(t), 'c_size_t')], cases, ret='c_uint32', ret_bits=32)
    part1(chk, mod, so)
    nmax = part2(chk, mod, so, tier)
    n3 = part3(chk, tier, rnd)
    chk.cov['exhaustive'] = True
    chk.cov['explanation'] = 'states = paths of harness_max_int (10 integer types) and harness_lex_literal (all strings over the literal alphabet); closed_terms = compiled boundary literals (enumeration)'
    chk.bounds.update({'part1': 'all 10 (signedness, width) integer types', 'part2': 'all strings of length <= %d over %r' % (nmax, LIT_ALPHABET.decode()),
                       'part3_closed_terms': n3, 'outside_claim': ['float literal rounding', 'escape decoding in char/string literals', 'lower_int_literal itself (needs the lowering context)', 'literals >= 2^64']})
    chk.assumptions.extend(['regex reference predicates in llharness/src/lib.rs are transcribed from tokenizer.txt', 'rustc 1.88 LLVM IR at opt-level 1; llsym validated against native runs',
                            'Cranelift opcode semantics as documented (part 3)'])


def replay(path):
    return replaylib.run_replay(path)
