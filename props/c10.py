"""C10 — out-of-range indexing and wrong #unwrap always abort before touching memory (run-time half).

Engine B, direct specification (DESIGN.md section 5, C10). For each container/element/operation template the index (all
2^64 values), the container bytes, slice length, tag and payload are symbolic. z3 proves per path:
  abort  => the index is out of range (or the variant differs), exit status 1 after a message, nothing was
            written, and every load/store of the path stayed inside the container (or the function's own frame);
  return => the index is in range (the variant matches), exactly that element was read/written, the rest of the
            container and the guard bytes around it are unchanged.
Because the paths partition the input space, "in range => returns that element" and "out of range => aborts"
follow. The compile-time IndexOutOfBounds diagnostic is outside this check (no run-time value to quantify over).
"""
import random
import z3

from lib import common, clifcheck, replay as replaylib
from lib.capyty import S, Struct, Enum, Opt, Err, Array, Ptr
from lib.common import Inconclusive
from lib.clifcheck import Prover
from lib.memob import Ob, Ctx, frame, bytes_eq, check_ob, BV

LEVEL = 'translation_validation'

P3 = Struct('P3', [('a', S('i32')), ('b', S('i32')), ('c', S('i32'))])
E1 = Enum('E1', [('A', S('i32'), None), ('B', S('u8'), 7), ('C', None, None), ('D', S('i64'), 40)])
E2 = Enum('E2', [('X', S('u8'), None), ('Y', None, None)])
DECLS = [P3, E1, E2]


def elem_value(ctx, buf, off, ety):
    """initial bytes of one element as a bit-vector (for scalars) at byte offset off"""
    return ctx.init_bytes(buf, off, ety.size())


def array_obs(ety, ename, n, kind):
    """read / write / compound / address-of on ^[n]T, ^mut [n]T or a local copy"""
    obs = []
    arr = Array(n, ety)
    st = ety.stride(); es = ety.size()
    tname = ety.src()
    scalar = ety.kind == 'scalar'

    def in_range(i):
        return z3.ULT(i, n)

    def read_post(ctx, xs):
        i = xs[0]; b = ctx.bufs[0]
        goals = [('no access outside the container', ctx.accesses_inside()), ('container and guards unchanged', frame(ctx, b, []))]
        if ctx.status == 'abort':
            return goals + [('abort only when the index is out of range', z3.Not(in_range(i)))]
        goals.append(('returns only when the index is in range', in_range(i)))
        for j in range(n):
            goals.append(('result is element i', z3.Implies(i == j, ctx.ret == elem_value(ctx, b, j * st, ety))))
        return goals
    if scalar:
        for how, sig, expr in (('ptr', 'p: ^%s' % arr.src(), 'p[i]'), ('local', 'p: ^%s' % arr.src(), None)):
            name = 'rd_%s_%s_%d' % (how, ename, n)
            if how == 'local':
                src = '%s :: (p: ^%s, i: usize) -> %s { a := p^; a[i] }' % (name, arr.src(), tname)
            else:
                src = '%s :: (%s, i: usize) -> %s { %s }' % (name, sig, tname, expr)
            ob = Ob(name, src, [('buf', arr, False), ('scalar', 'usize')], tname, read_post,
                    {'kind': 'index-read', 'container': how, 'elem': tname, 'n': n})
            ob.handles_abort = True; obs.append(ob)
    else:
        # struct element: read one field of element i
        name = 'rdf_%s_%d' % (ename, n)
        src = '%s :: (p: ^%s, i: usize) -> i32 { p[i].b }' % (name, arr.src())

        def readf_post(ctx, xs):
            i = xs[0]; b = ctx.bufs[0]
            goals = [('no access outside the container', ctx.accesses_inside()), ('container and guards unchanged', frame(ctx, b, []))]
            if ctx.status == 'abort':
                return goals + [('abort only when the index is out of range', z3.Not(in_range(i)))]
            goals.append(('returns only when the index is in range', in_range(i)))
            for j in range(n):
                goals.append(('result is field b of element i', z3.Implies(i == j, ctx.ret == ctx.init_bytes(b, j * st + 4, 4))))
            return goals
        ob = Ob(name, src, [('buf', arr, False), ('scalar', 'usize')], 'i32', readf_post, {'kind': 'index-read-field', 'elem': tname, 'n': n})
        ob.handles_abort = True; obs.append(ob)
    if scalar:
        # literal in-range indexes (out-of-range literals are rejected at compile time): exactly that element
        for k in sorted({0, n - 1}):
            name = 'rdl_%s_%d_%d' % (ename, n, k)
            src = '%s :: (p: ^%s) -> %s { p[%d] }' % (name, arr.src(), tname, k)

            def rl_post(ctx, xs, k=k):
                b = ctx.bufs[0]
                return [('a literal in-range index never aborts', z3.BoolVal(ctx.status == 'ret')), ('no access outside the container', ctx.accesses_inside()),
                        ('container unchanged', frame(ctx, b, []))] + ([('result is element %d' % k, ctx.ret == elem_value(ctx, b, k * st, ety))] if ctx.status == 'ret' else [])
            ob = Ob(name, src, [('buf', arr, False)], tname, rl_post, {'kind': 'index-read-literal', 'elem': tname, 'n': n})
            ob.handles_abort = True; obs.append(ob)

    if scalar:
        def write_post(ctx, xs, compound=False):
            i, x = xs; b = ctx.bufs[0]
            goals = [('no access outside the container', ctx.accesses_inside())]
            if ctx.status == 'abort':
                return goals + [('abort only when the index is out of range', z3.Not(in_range(i))),
                                ('nothing was written before the abort', frame(ctx, b, []))]
            goals.append(('returns only when the index is in range', in_range(i)))
            for j in range(n):
                newv = (elem_value(ctx, b, j * st, ety) + x) if compound else x
                goals.append(('element i holds the written value', z3.Implies(i == j, ctx.final_bytes(b, j * st, es) == newv)))
                goals.append(('only element i changed', z3.Implies(i == j, frame(ctx, b, [(j * st, es)]))))
            return goals
        name = 'wr_%s_%d' % (ename, n)
        src = '%s :: (p: ^mut %s, i: usize, x: %s) { p[i] = x; }' % (name, arr.src(), tname)
        ob = Ob(name, src, [('buf', arr, True), ('scalar', 'usize'), ('scalar', tname)], None, write_post,
                {'kind': 'index-write', 'elem': tname, 'n': n})
        ob.handles_abort = True; obs.append(ob)
        if tname not in ('bool', 'char'):
            name = 'cw_%s_%d' % (ename, n)
            src = '%s :: (p: ^mut %s, i: usize, x: %s) { p[i] += x; }' % (name, arr.src(), tname)
            ob = Ob(name, src, [('buf', arr, True), ('scalar', 'usize'), ('scalar', tname)], None,
                    lambda ctx, xs: write_post(ctx, xs, compound=True), {'kind': 'index-compound-assign', 'elem': tname, 'n': n})
            ob.handles_abort = True; obs.append(ob)
        # address-of an element, then a write through it
        name = 'ad_%s_%d' % (ename, n)
        src = '%s :: (p: ^mut %s, i: usize, x: %s) { q := ^mut p[i]; q^ = x; }' % (name, arr.src(), tname)
        ob = Ob(name, src, [('buf', arr, True), ('scalar', 'usize'), ('scalar', tname)], None, write_post,
                {'kind': 'index-address-of', 'elem': tname, 'n': n})
        ob.handles_abort = True; obs.append(ob)
    return obs


def slice_obs(ety, ename, cap):
    """[]T with a symbolic length <= cap over a buffer of cap elements (slice value built from {len, ptr})"""
    obs = []
    arr = Array(cap, ety); tname = ety.src(); st = ety.stride(); es = ety.size()
    raw = 'Raw_%s' % ename
    decl = '%s :: struct { len: usize, ptr: ^mut %s };' % (raw, arr.src())

    def mk(name, body_sig, call, ret):
        return ('%s_in :: %s\n' % (name, body_sig) +
                '%s :: (p: ^mut %s, n: usize, i: usize%s)%s { r := %s.{ len = n, ptr = p }; s := (^[]%s).(rawptr.(^r))^; %s }'
                % (name, arr.src(), ', x: %s' % tname if 'x' in call else '', ' -> %s' % ret if ret else '', raw, tname, call))

    def pre(xs):
        return [z3.ULE(xs[0], cap)]

    def read_post(ctx, xs):
        nlen, i = xs[0], xs[1]; b = ctx.bufs[0]
        goals = [('no access outside the container', ctx.accesses_inside()), ('container and guards unchanged', frame(ctx, b, []))]
        if ctx.status == 'abort':
            return goals + [('abort only when the index is >= len', z3.UGE(i, nlen))]
        goals.append(('returns only when the index is < len', z3.ULT(i, nlen)))
        for j in range(cap):
            goals.append(('result is element i', z3.Implies(i == j, ctx.ret == elem_value(ctx, b, j * st, ety))))
        return goals
    name = 'srd_%s' % ename
    src = mk(name, '(s: []%s, i: usize) -> %s { s[i] }' % (tname, tname), '%s_in(s, i)' % name, tname)
    ob = Ob(name, src, [('buf', arr, True), ('scalar', 'usize'), ('scalar', 'usize')], tname, read_post,
            {'kind': 'slice-read', 'elem': tname}, pre=pre)
    ob.handles_abort = True; obs.append(ob)

    def write_post(ctx, xs):
        nlen, i, x = xs; b = ctx.bufs[0]
        goals = [('no access outside the container', ctx.accesses_inside())]
        if ctx.status == 'abort':
            return goals + [('abort only when the index is >= len', z3.UGE(i, nlen)), ('nothing was written before the abort', frame(ctx, b, []))]
        goals.append(('returns only when the index is < len', z3.ULT(i, nlen)))
        for j in range(cap):
            goals.append(('element i holds the written value', z3.Implies(i == j, ctx.final_bytes(b, j * st, es) == x)))
            goals.append(('only element i changed', z3.Implies(i == j, frame(ctx, b, [(j * st, es)]))))
        return goals
    # literal and constant indexes into a slice: the length is only known at run time, so the check must stay
    for k, spelling in ((0, '0'), (1, '1'), (cap - 1, str(cap - 1)), (cap, str(cap)), (2, '(1 + 1)'), (3, 'K3')):
        name = 'srl_%s_%d_%s' % (ename, k, 'lit' if spelling.isdigit() else ('expr' if '(' in spelling else 'const'))
        src = ('%s_in :: (s: []%s) -> %s { s[%s] }\n' % (name, tname, tname, spelling) +
               '%s :: (p: ^mut %s, n: usize) -> %s { r := %s.{ len = n, ptr = p }; s := (^[]%s).(rawptr.(^r))^; %s_in(s) }' % (name, arr.src(), tname, raw, tname, name))

        def lit_post(ctx, xs, k=k):
            nlen = xs[0]; b = ctx.bufs[0]
            goals = [('no access outside the container', ctx.accesses_inside()), ('container and guards unchanged', frame(ctx, b, []))]
            if ctx.status == 'abort':
                return goals + [('abort only when the literal index is >= len', z3.UGE(BV(k, 64), nlen))]
            goals.append(('returns only when the literal index is < len', z3.ULT(BV(k, 64), nlen)))
            if k < cap:
                goals.append(('result is element %d' % k, ctx.ret == elem_value(ctx, b, k * st, ety)))
            return goals
        ob = Ob(name, src, [('buf', arr, True), ('scalar', 'usize')], tname, lit_post, {'kind': 'slice-read-literal-index', 'elem': tname, 'index': spelling},
                pre=lambda xs: [z3.ULE(xs[0], cap)])
        ob.handles_abort = True; obs.append(ob)
        name = 'swl_%s_%d_%s' % (ename, k, 'lit' if spelling.isdigit() else ('expr' if '(' in spelling else 'const'))
        src = ('%s_in :: (s: ^mut []%s, x: %s) { s[%s] = x; }\n' % (name, tname, tname, spelling) +
               '%s :: (p: ^mut %s, n: usize, x: %s) { r := %s.{ len = n, ptr = p }; s := (^[]%s).(rawptr.(^r))^; s2 := s; %s_in(^mut s2, x); }' % (name, arr.src(), tname, raw, tname, name))

        def litw_post(ctx, xs, k=k):
            nlen, x = xs; b = ctx.bufs[0]
            goals = [('no access outside the container', ctx.accesses_inside())]
            if ctx.status == 'abort':
                return goals + [('abort only when the literal index is >= len', z3.UGE(BV(k, 64), nlen)), ('nothing was written before the abort', frame(ctx, b, []))]
            goals.append(('returns only when the literal index is < len', z3.ULT(BV(k, 64), nlen)))
            if k < cap:
                goals += [('element holds the written value', ctx.final_bytes(b, k * st, es) == x), ('only that element changed', frame(ctx, b, [(k * st, es)]))]
            return goals
        ob = Ob(name, src, [('buf', arr, True), ('scalar', 'usize'), ('scalar', tname)], None, litw_post, {'kind': 'slice-write-literal-index', 'elem': tname, 'index': spelling},
                pre=lambda xs: [z3.ULE(xs[0], cap)])
        ob.handles_abort = True; obs.append(ob)
    name = 'swr_%s' % ename
    src = mk(name, '(s: ^mut []%s, i: usize, x: %s) { s[i] = x; }' % (tname, tname), 's2 := s; %s_in(^mut s2, i, x);' % name, None)
    ob = Ob(name, src, [('buf', arr, True), ('scalar', 'usize'), ('scalar', 'usize'), ('scalar', tname)], None, write_post,
            {'kind': 'slice-write', 'elem': tname}, pre=pre)
    ob.handles_abort = True; obs.append(ob)
    # an index expression that re-assigns the indexed slice while it is evaluated (`w[{ w = t; i }]`): whichever of the two
    # slice values the access uses, its bounds check and its element address must come from the SAME slice value
    two = ('%s :: (p: ^mut %s, n: usize, q: ^mut %s, m: usize, i: usize%s)%s { r1 := %s.{ len = n, ptr = p }; s := (^[]%s).(rawptr.(^r1))^; '
           'r2 := %s.{ len = m, ptr = q }; t := (^[]%s).(rawptr.(^r2))^; %s }')
    name = 'sfxr_%s' % ename
    src = ('%s_in :: (s: []%s, t: []%s, i: usize) -> %s { w := s; w[{ w = t; i }] }\n' % (name, tname, tname, tname) +
           two % (name, arr.src(), arr.src(), '', ' -> ' + tname, raw, tname, raw, tname, '%s_in(s, t, i)' % name))

    def sfx_read_post(ctx, xs):
        n, m, i = xs; b1, b2 = ctx.bufs
        goals = [('no access outside the containers', ctx.accesses_inside()), ('containers and guards unchanged', z3.And(frame(ctx, b1, []), frame(ctx, b2, [])))]
        if ctx.status == 'abort':
            return goals + [('abort only when the index is out of range for one of the two slice values', z3.Or(z3.UGE(i, n), z3.UGE(i, m)))]
        goals.append(('a return means the index is in range of one of the two slice values', z3.Or(z3.ULT(i, n), z3.ULT(i, m))))
        for j in range(cap):
            goals.append(('the result is element i of a slice value whose length is > i',
                          z3.Implies(i == j, z3.Or(z3.And(z3.ULT(i, n), ctx.ret == elem_value(ctx, b1, j * st, ety)), z3.And(z3.ULT(i, m), ctx.ret == elem_value(ctx, b2, j * st, ety))))))
        return goals
    ob = Ob(name, src, [('buf', arr, True), ('scalar', 'usize'), ('buf', arr, True), ('scalar', 'usize'), ('scalar', 'usize')], tname, sfx_read_post,
            {'kind': 'slice-read-index-reassigns-slice', 'elem': tname}, pre=lambda xs: [z3.ULE(xs[0], cap), z3.ULE(xs[1], cap)])
    ob.handles_abort = True; obs.append(ob)
    name = 'sfxw_%s' % ename
    src = ('%s_in :: (s: []%s, t: []%s, i: usize, x: %s) { w := s; w[{ w = t; i }] = x; }\n' % (name, tname, tname, tname) +
           two % (name, arr.src(), arr.src(), ', x: %s' % tname, '', raw, tname, raw, tname, '%s_in(s, t, i, x);' % name))

    def sfx_write_post(ctx, xs):
        n, m, i, x = xs; b1, b2 = ctx.bufs
        goals = [('no access outside the containers', ctx.accesses_inside())]
        if ctx.status == 'abort':
            return goals + [('abort only when the index is out of range for one of the two slice values', z3.Or(z3.UGE(i, n), z3.UGE(i, m))),
                            ('nothing was written before the abort', z3.And(frame(ctx, b1, []), frame(ctx, b2, [])))]
        for j in range(cap):
            goals.append(('nothing but element i changed', z3.Implies(i == j, z3.And(frame(ctx, b1, [(j * st, es)]), frame(ctx, b2, [(j * st, es)])))))
            goals.append(('element i of a slice value whose length is > i holds the written value',
                          z3.Implies(i == j, z3.Or(z3.And(z3.ULT(i, n), ctx.final_bytes(b1, j * st, es) == x), z3.And(z3.ULT(i, m), ctx.final_bytes(b2, j * st, es) == x)))))
        goals.append(('a return means the index is in range of one of the two slice values', z3.Or(z3.ULT(i, n), z3.ULT(i, m))))
        return goals
    ob = Ob(name, src, [('buf', arr, True), ('scalar', 'usize'), ('buf', arr, True), ('scalar', 'usize'), ('scalar', 'usize'), ('scalar', tname)], None, sfx_write_post,
            {'kind': 'slice-write-index-reassigns-slice', 'elem': tname}, pre=lambda xs: [z3.ULE(xs[0], cap), z3.ULE(xs[1], cap)])
    ob.handles_abort = True; obs.append(ob)
    return obs, decl


def nested_obs():
    obs = []
    arr = Array(2, Array(3, S('u8')))

    def post(ctx, xs):
        i, j = xs; b = ctx.bufs[0]
        goals = [('no access outside the container', ctx.accesses_inside()), ('container and guards unchanged', frame(ctx, b, []))]
        ok = z3.And(z3.ULT(i, 2), z3.ULT(j, 3))
        if ctx.status == 'abort':
            return goals + [('abort only when an index is out of range', z3.Not(ok))]
        goals.append(('returns only when both indexes are in range', ok))
        for a in range(2):
            for c in range(3):
                goals.append(('result is element [i][j]', z3.Implies(z3.And(i == a, j == c), ctx.ret == ctx.init_bytes(b, a * 3 + c, 1))))
        return goals
    ob = Ob('rd_nested', 'rd_nested :: (p: ^[2][3]u8, i: usize, j: usize) -> u8 { p[i][j] }', [('buf', arr, False), ('scalar', 'usize'), ('scalar', 'usize')],
            'u8', post, {'kind': 'index-read', 'container': 'nested'})
    ob.handles_abort = True; obs.append(ob)

    def wpost(ctx, xs):
        i, j, x = xs; b = ctx.bufs[0]
        goals = [('no access outside the container', ctx.accesses_inside())]
        ok = z3.And(z3.ULT(i, 2), z3.ULT(j, 3))
        if ctx.status == 'abort':
            return goals + [('abort only when an index is out of range', z3.Not(ok)), ('nothing was written before the abort', frame(ctx, b, []))]
        goals.append(('returns only when both indexes are in range', ok))
        for a in range(2):
            for c in range(3):
                goals.append(('only element [i][j] changed, to x', z3.Implies(z3.And(i == a, j == c), z3.And(ctx.final_bytes(b, a * 3 + c, 1) == x, frame(ctx, b, [(a * 3 + c, 1)])))))
        return goals
    ob = Ob('wr_nested', 'wr_nested :: (p: ^mut [2][3]u8, i: usize, j: usize, x: u8) { p[i][j] = x; }',
            [('buf', arr, True), ('scalar', 'usize'), ('scalar', 'usize'), ('scalar', 'u8')], None, wpost, {'kind': 'index-write', 'container': 'nested'})
    ob.handles_abort = True; obs.append(ob)
    return obs


def unwrap_obs():
    obs = []
    discs = E1.discriminants()
    tag_off = E1.tag_offset()
    for (vn, pay, _), d in zip(E1.variants, discs):
        if pay is None:
            continue
        name = 'unw_E1_%s' % vn
        src = '%s :: (p: ^E1) -> %s { %s.(#unwrap(p^, E1.%s)) }' % (name, pay.src(), pay.src(), vn)

        def post(ctx, xs, d=d, pay=pay):
            b = ctx.bufs[0]
            tag = ctx.init_bytes(b, tag_off, 1)
            goals = [('no access outside the enum', ctx.accesses_inside()), ('the enum and its neighbours are unchanged', frame(ctx, b, []))]
            if ctx.status == 'abort':
                return goals + [('abort only when the variant differs', tag != d)]
            return goals + [('returns only for the requested variant', tag == d), ('result is the payload', ctx.ret == ctx.init_bytes(b, 0, pay.size()))]
        ob = Ob(name, src, [('buf', E1, False)], pay.src(), post, {'kind': 'unwrap', 'sum': 'enum', 'variant': vn})
        ob.handles_abort = True; obs.append(ob)
        name = 'isv_E1_%s' % vn
        src = '%s :: (p: ^E1) -> bool { #is_variant(p^, E1.%s) }' % (name, vn)

        def ipost(ctx, xs, d=d):
            b = ctx.bufs[0]
            tag = ctx.init_bytes(b, tag_off, 1)
            return [('#is_variant never aborts', z3.BoolVal(ctx.status == 'ret'))] + ([('result tells whether the tag is the variant\'s', ctx.ret == z3.If(tag == d, BV(1, 8), BV(0, 8))),
                                                                                      ('unchanged', frame(ctx, b, []))] if ctx.status == 'ret' else [])
        ob = Ob(name, src, [('buf', E1, False)], 'bool', ipost, {'kind': 'is_variant', 'sum': 'enum', 'variant': vn})
        ob.handles_abort = True; obs.append(ob)
    # optional
    for oty, nm in ((Opt(S('i32')), 'oi32'), (Opt(S('u8')), 'ou8'), (Opt(S('i64')), 'oi64')):
        name = 'unw_' + nm
        src = '%s :: (p: ^%s) -> %s { #unwrap(p^) }' % (name, oty.src(), oty.sub.src())

        def post(ctx, xs, oty=oty):
            b = ctx.bufs[0]
            tag = ctx.init_bytes(b, oty.tag_offset(), 1)
            goals = [('no access outside the optional', ctx.accesses_inside()), ('unchanged', frame(ctx, b, []))]
            if ctx.status == 'abort':
                return goals + [('abort only when the optional is nil', tag != 1)]
            return goals + [('returns only when a value is present', tag == 1), ('result is the payload', ctx.ret == ctx.init_bytes(b, 0, oty.sub.size()))]
        ob = Ob(name, src, [('buf', oty, False)], oty.sub.src(), post, {'kind': 'unwrap', 'sum': 'optional', 'payload': oty.sub.src()})
        ob.handles_abort = True; obs.append(ob)
    # error union, both sides
    ety = Err(S('bool'), S('i32'))
    for side, want, rt, size in (('ok', 1, 'i32', 4), ('err', 0, 'bool', 1)):
        name = 'unw_eu_' + side
        src = '%s :: (p: ^bool!i32) -> %s { #unwrap(p^, %s) }' % (name, rt, rt)

        def post(ctx, xs, want=want, size=size):
            b = ctx.bufs[0]
            tag = ctx.init_bytes(b, ety.tag_offset(), 1)
            goals = [('no access outside the error union', ctx.accesses_inside()), ('unchanged', frame(ctx, b, []))]
            if ctx.status == 'abort':
                return goals + [('abort only when the other side is active', tag != want)]
            return goals + [('returns only for the requested side', tag == want), ('result is the payload', ctx.ret == ctx.init_bytes(b, 0, size))]
        ob = Ob(name, src, [('buf', ety, False)], rt, post, {'kind': 'unwrap', 'sum': 'error-union', 'side': side},
                pre=None)
        ob.handles_abort = True; obs.append(ob)
    # zero-sized requests: a payload-less variant, `nil` of an optional / nullable pointer, the `void` side of an error union.
    # nothing is read from the payload, but the tag must still be checked
    for (vn, pay, _), d in zip(E1.variants, discs):
        if pay is not None:
            continue
        name = 'unwz_E1_%s' % vn
        src = '%s :: (p: ^E1) { x := #unwrap(p^, E1.%s); }' % (name, vn)

        def zpost(ctx, xs, d=d):
            b = ctx.bufs[0]
            tag = ctx.init_bytes(b, tag_off, 1)
            goals = [('no access outside the enum', ctx.accesses_inside()), ('unchanged', frame(ctx, b, []))]
            return goals + ([('abort only when the variant differs', tag != d)] if ctx.status == 'abort' else [('returns only for the requested variant', tag == d)])
        ob = Ob(name, src, [('buf', E1, False)], None, zpost, {'kind': 'unwrap', 'sum': 'enum', 'variant': vn, 'zero_sized': True})
        ob.handles_abort = True; obs.append(ob)
    for oty, nm in ((Opt(S('i32')), 'oi32'), (Opt(S('i64')), 'oi64')):
        name = 'unwz_' + nm
        src = '%s :: (p: ^%s) { x := #unwrap(p^, nil); }' % (name, oty.src())

        def npost(ctx, xs, oty=oty):
            b = ctx.bufs[0]
            tag = ctx.init_bytes(b, oty.tag_offset(), 1)
            goals = [('no access outside the optional', ctx.accesses_inside()), ('unchanged', frame(ctx, b, []))]
            return goals + ([('abort only when a value is present', tag != 0)] if ctx.status == 'abort' else [('returns only when the optional is nil', tag == 0)])
        ob = Ob(name, src, [('buf', oty, False)], None, npost, {'kind': 'unwrap', 'sum': 'optional', 'payload': 'nil', 'zero_sized': True})
        ob.handles_abort = True; obs.append(ob)
    name = 'unwz_eu_void'
    src = ('unwz_eu_mk :: (iserr: bool) -> E2!void { if iserr { return E2.Y; } }\n'
           'unwz_eu_void :: (iserr: bool) { e := unwz_eu_mk(iserr); x := #unwrap(e, void); }')

    def vpost(ctx, xs):
        return [('abort only when the error side is active', xs[0] == 1)] if ctx.status == 'abort' else [('returns only for the void side', xs[0] == 0)]
    ob = Ob(name, src, [('scalar', 'bool')], None, vpost, {'kind': 'unwrap', 'sum': 'error-union', 'side': 'void', 'zero_sized': True})
    ob.handles_abort = True; obs.append(ob)
    name = 'unwz_np'
    src = ('unwz_np_in :: (p: ?^i32) { x := #unwrap(p, nil); }\n'
           'unwz_np :: (q: ^i32, isnil: bool) { o : ?^i32 = q; if isnil { o = nil; } unwz_np_in(o); }')

    def znppost(ctx, xs):
        b = ctx.bufs[0]
        goals = [('unchanged', frame(ctx, b, []))]
        return goals + ([('abort only when the pointer is not nil', xs[0] == 0)] if ctx.status == 'abort' else [('returns only for a nil pointer', xs[0] == 1)])
    ob = Ob(name, src, [('buf', S('i32'), False), ('scalar', 'bool')], None, znppost, {'kind': 'unwrap', 'sum': 'nullable-pointer', 'zero_sized': True})
    ob.handles_abort = True; obs.append(ob)
    # nullable pointer: #unwrap(p)^ with p symbolic (null or pointing at the buffer)
    name = 'unw_np'
    src = ('unw_np_in :: (p: ?^i32) -> i32 { #unwrap(p)^ }\n'
           'unw_np :: (q: ^i32, isnil: bool) -> i32 { o : ?^i32 = q; if isnil { o = nil; } unw_np_in(o) }')

    def nppost(ctx, xs):
        b = ctx.bufs[0]
        goals = [('no access outside the pointee', ctx.accesses_inside()), ('unchanged', frame(ctx, b, []))]
        if ctx.status == 'abort':
            return goals + [('abort only when the pointer is nil', xs[0] == 1)]
        return goals + [('returns only for a non-nil pointer', xs[0] == 0), ('result is the pointee', ctx.ret == ctx.init_bytes(b, 0, 4))]
    ob = Ob(name, src, [('buf', S('i32'), False), ('scalar', 'bool')], 'i32', nppost, {'kind': 'unwrap', 'sum': 'nullable-pointer'})
    ob.handles_abort = True; obs.append(ob)
    return obs


def run(chk, tier, seed):
    common.build_capy()
    elems = [(S('u8'), 'u8'), (S('i32'), 'i32'), (S('i64'), 'i64'), (P3, 'P3')]
    if tier == 'thorough':
        elems += [(S('u16'), 'u16'), (S('bool'), 'bool'), (S('u64'), 'u64'), (S('i8'), 'i8')]
    sizes = [1, 3, 4] if tier == 'quick' else [1, 2, 3, 4, 5, 8]
    obs = []; decls = list(DECLS); extra_decl = []
    for ety, en in elems:
        for n in sizes:
            obs += array_obs(ety, en, n, None)
        if ety.kind == 'scalar':
            so, d = slice_obs(ety, en, 4 if tier == 'quick' else 8)
            obs += so; extra_decl.append(d)
    obs += nested_obs() + unwrap_obs()
    src = clifcheck.PRELUDE + 'K3 : usize : 3;\n' + '\n'.join(d.decl() for d in decls) + '\n' + '\n'.join(extra_decl) + '\n' + '\n'.join(o.src for o in obs) + '\n'
    refs = 'refs :: () {\n' + '\n'.join('    r%d := %s;' % (i, o.name) for i, o in enumerate(obs)) + '\n}\n'
    mod, out = clifcheck.compile_module('C10', 'index', src + refs + 'main :: () { refs(); }\n')
    if mod is None:
        raise Inconclusive('the C10 template was rejected by the compiler:\n' + out[-1500:])
    chk.opcodes.update(mod.opcodes)
    import os
    from lib import elfdata
    data = elfdata.data_objects(os.path.join(common.workdir('C10'), 'out', 'index.o'))
    prover = Prover(chk)
    bad = 0
    for ob in obs:
        bad += check_ob(chk, prover, mod, ob, (src, refs), track_loads=True, data=data)
    chk.cov.update({'programs': len(obs), 'disagreements_checked': bad,
                    'explanation': 'programs = index/unwrap templates; each proved for all index values, all container bytes, all lengths/tags'})
    chk.bounds.update({'array_lengths': sizes, 'slice_capacity': 4 if tier == 'quick' else 8, 'elements': [e[1] for e in elems],
                       'index_values': 'all 2^64', 'outside_claim': ['compile-time IndexOutOfBounds diagnostic for literal indexes', 'the text of the abort message']})
    chk.assumptions.extend(['layout oracle = documented rules (lib/capyty.py)', 'Cranelift lowers each CLIF opcode as documented',
                            'a slice value is {len, ptr} (README: a slice references an array; core/src/meta.capy)'])


def replay(path):
    return replaylib.run_replay(path)
