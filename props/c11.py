"""C11 — switches dispatch on the runtime variant (run-time half).

Engine B, direct specification (DESIGN.md section 5, C11). Generated sum types (enums with up to 6 variants, custom
discriminants, payloads none/u8/i32/i64/struct, distinct wrappers, optionals, error unions, nullable
pointers) are switched over with all-variant arms or a subset plus a default arm, in shorthand and qualified
spelling. Every arm reports `mark(arm id); mark(payload)`. The scrutinee's tag byte and payload bytes are
symbolic; z3 proves per path that a declared discriminant runs exactly its arm with the payload read from the
object, that the default arm sees the whole value, and that an undeclared tag reaches only the abort sequence or
the default arm. Acceptance rules (exhaustive / duplicate / foreign arms) are outside this check.
"""
import random
import z3

from lib import common, clifcheck, replay as replaylib
from lib.capyty import S, Struct, Enum, Opt, Err, Array, Ptr, Distinct
from lib.common import Inconclusive
from lib.clifcheck import Prover
from lib.memob import Ob, frame, check_ob, BV

LEVEL = 'translation_validation'
PAIR = Struct('Pair', [('a', S('i32')), ('b', S('u8'))])
PAYLOADS = [None, S('u8'), S('i32'), S('i64'), PAIR, S('u16'), S('bool')]


def ext64(v, signed):
    if v.size() == 64:
        return v
    return z3.SignExt(64 - v.size(), v) if signed else z3.ZeroExt(64 - v.size(), v)


def payload_marks(ctx, buf, pay):
    """expected mark arguments for the payload of the active variant, read from the object's initial bytes"""
    if pay is None:
        return []
    if pay.kind == 'struct':
        return [ext64(ctx.init_bytes(buf, 0, 4), True), ext64(ctx.init_bytes(buf, 4, 1), False)]
    return [ext64(ctx.init_bytes(buf, 0, pay.size()), pay.signed())]


def pay_param(pay):
    """obligation parameter that carries a payload built from the function's parameter `x`"""
    return ('buf', S('i32'), False) if pay.kind == 'ptr' else ('scalar', pay.src())


def pay_expected(ctx, xs, pay):
    """the mark a payload arm prints: the scalar itself, or (pointer payload) the pointee read through the pointer"""
    if pay.kind == 'ptr':
        return z3.SignExt(32, ctx.init_bytes(ctx.bufs[0], 0, 4))
    return ext64(xs[0], pay.signed())


def payload_stmts(pay, v, via):
    """Capy statements that mark the payload bound to `v` (variant types need a cast to their payload type first)"""
    if pay is None:
        return ''
    if pay.kind == 'struct':
        return ' mark(u64.(%s.a)); mark(u64.(%s.b));' % (v, v)
    if pay.kind == 'ptr':
        return ' mark(u64.((%s).(%s)^));' % (pay.src(), v)
    if via:
        return ' mark(u64.(%s.(%s)));' % (pay.src(), v)
    return ' mark(u64.(%s));' % v


def marks_eq(got, exp):
    if len(got) != len(exp):
        return z3.BoolVal(False)
    return z3.And(*[g == (BV(e, 64) if isinstance(e, int) else e) for g, e in zip(got, exp)]) if got else z3.BoolVal(True)


def gen_enum(rnd, idx):
    n = rnd.randint(1, 6)
    variants = []
    used = set(); nxt = 0
    for k in range(n):
        pay = rnd.choice(PAYLOADS)
        d = None
        if rnd.random() < 0.35:
            d = rnd.randint(nxt, min(250, nxt + 40))
        cur = d if d is not None else nxt
        if cur > 250:
            d = None; cur = nxt
        variants.append(('V%d' % k, pay, d)); nxt = cur + 1
    return Enum('En%d' % idx, variants)


def enum_switch_obs(en, rnd, idx, wrap_distinct=False):
    obs = []
    discs = en.discriminants()
    tyname = en.name
    decl_extra = None
    if wrap_distinct:
        tyname = 'D' + en.name
        decl_extra = '%s :: distinct %s;' % (tyname, en.name)
    n = len(en.variants)
    for mode in ('all', 'subset'):
        named = list(range(n))
        if mode == 'subset':
            if n < 2:
                continue
            named = sorted(rnd.sample(range(n), rnd.randint(1, n - 1)))
        qualified = rnd.random() < 0.5
        arms = []
        for k in named:
            vn, pay, _ = en.variants[k]
            head = ('%s.%s' % (en.name, vn)) if qualified else ('.' + vn)
            arms.append('%s => { mark(%d);%s }' % (head, k + 1, payload_stmts(pay, 'v', pay is not None and pay.kind != 'struct')))
        unnamed = [k for k in range(n) if k not in named]
        if mode == 'subset':
            inner = ' '.join('if #is_variant(v, %s.%s) { mark(%d); }' % (en.name, en.variants[k][0], 100 + k) for k in unnamed)
            arms.append('_ => { mark(99); %s }' % inner)
        name = 'sw_%s_%s%s' % (en.name, mode, '_d' if wrap_distinct else '')
        src = '%s :: (p: ^%s) { switch v in p^ { %s } }' % (name, tyname, ', '.join(arms))

        def post(ctx, xs, named=named, unnamed=unnamed, mode=mode):
            b = ctx.bufs[0]
            tag = ctx.init_bytes(b, en.tag_offset(), 1)
            got = ctx.marks()
            goals = [('the scrutinee is not modified', frame(ctx, b, [])), ('no access outside the scrutinee', ctx.accesses_inside())]
            declared = z3.Or(*[tag == d for d in discs])
            if ctx.status == 'abort':
                goals.append(('only an undeclared tag can abort, and only without a default arm', z3.And(z3.Not(declared), z3.BoolVal(mode == 'all'))))
                goals.append(('no arm ran before the abort', z3.BoolVal(len(got) == 0)))
                return goals
            for k in range(len(discs)):
                vn, pay, _ = en.variants[k]
                if k in named:
                    exp = [k + 1] + payload_marks(ctx, b, pay)
                else:
                    exp = [99, 100 + k]
                goals.append(('variant %s runs exactly its arm with its payload' % vn, z3.Implies(tag == discs[k], marks_eq(got, exp))))
            if mode == 'subset':
                goals.append(('an undeclared tag reaches only the default arm', z3.Implies(z3.Not(declared), marks_eq(got, [99]))))
            else:
                goals.append(('an undeclared tag never reaches an arm', declared))
            return goals
        ob = Ob(name, src, [('buf', en, False)], None, post, {'kind': 'switch', 'sum': 'distinct-enum' if wrap_distinct else 'enum', 'arms': mode,
                                                               'spelling': 'qualified' if qualified else 'shorthand'}, event_funcs={'mark'})
        ob.handles_abort = True
        obs.append(ob)
    return obs, decl_extra


def roundtrip_obs(rnd, nenums):
    """numbering-agnostic: a value BUILT as variant V (by the compiler's own conversion) must run V's arm and be no other
    variant. The enums mix auto-numbered variants with explicit discriminants that sit where auto-numbering would
    land (so any scheme that lets two variants share a tag is exposed)."""
    obs = []; decls = []
    shapes = [[('Point', None, None), ('Circle', S('i32'), None), ('Line', None, 1), ('Square', S('i32'), 2)],
              [('A', S('u8'), None), ('B', None, 0), ('C', S('u8'), None)],
              [('A', None, 2), ('B', S('i64'), None), ('C', None, 3), ('D', S('u8'), None), ('E', None, 0)],
              # a pointer payload: the union is still a tagged union (only OPTIONALS of pointers are tag-less)
              [('P', Ptr(S('i32')), None), ('Q', S('u8'), None), ('R', None, None)]]
    for i in range(nenums):
        n = rnd.randint(2, 6)
        vs = []
        for k in range(n):
            vs.append(('W%d' % k, rnd.choice([None, S('u8'), S('i32'), S('i64')]), rnd.choice([None, None, rnd.randint(0, n + 1)])))
        # explicit discriminants must be pairwise different (the compiler rejects duplicates)
        seen = set(); ok = True
        for _, _, d in vs:
            if d is not None and d in seen:
                ok = False
            if d is not None:
                seen.add(d)
        if ok:
            shapes.append(vs)
    for si, vs in enumerate(shapes):
        en = Enum('Rt%d' % si, vs)
        decls.append(en.decl())
        arms = ', '.join('.%s => { mark(%d);%s }' % (vn, k + 1, payload_stmts(pay, 'v', pay is not None)) for k, (vn, pay, _) in enumerate(vs))
        for k, (vn, pay, _) in enumerate(vs):
            name = 'rt_%s_%s' % (en.name, vn)
            others = ' '.join('if #is_variant(e, %s.%s) { mark(%d); }' % (en.name, wn, 500 + j) for j, (wn, _, _) in enumerate(vs) if j != k)
            if pay is None:
                src = '%s :: () { e : %s = %s.%s; switch v in e { %s } %s }' % (name, en.name, en.name, vn, arms, others)
                params = []
            else:
                src = '%s :: (x: %s) { e : %s = %s.%s.(x); switch v in e { %s } %s }' % (name, pay.src(), en.name, en.name, vn, arms, others)
                params = [pay_param(pay)]

            def post(ctx, xs, k=k, pay=pay):
                got = ctx.marks()
                if ctx.status != 'ret':
                    return [('a value built as a declared variant never aborts the switch', z3.BoolVal(False))]
                exp = [k + 1] + ([pay_expected(ctx, xs, pay)] if pay is not None else [])
                return [('the variant that was built runs exactly its own arm with its payload, and is no other variant', marks_eq(got, exp))]
            ob = Ob(name, src, params, None, post, {'kind': 'switch-roundtrip', 'sum': 'enum'}, event_funcs={'mark'})
            ob.handles_abort = True
            obs.append(ob)
        # the same value on its way through an optional / an error union of its own enum (`return My_Error.Oops` in a
        # function returning `My_Error!T`): the variant must arrive as that variant of the enum on the right side
        if si < 6:
            for k, (vn, pay, _) in enumerate(vs):
                build = '%s.%s' % (en.name, vn) + ('.(x)' if pay is not None else '')
                params = [pay_param(pay)] if pay is not None else []
                psig = 'x: %s' % pay.src() if pay is not None else ''
                for wrap, wty, other in (('opt', '?%s' % en.name, 'nil => { mark(77); }'), ('err', '%s!u16' % en.name, 'u16 => { mark(78); }'),
                                         ('ok', 'str!%s' % en.name, 'str => { mark(79); }')):
                    name = 'rw_%s_%s_%s' % (en.name, vn, wrap)
                    src = ('%s_mk :: (%s) -> %s { %s }\n%s :: (%s) { w := %s_mk(%s); switch u in w { %s => { switch v in u { %s } }, %s } }'
                           % (name, psig, wty, build, name, psig, name, 'x' if pay is not None else '', en.name, arms, other))

                    def wpost(ctx, xs, k=k, pay=pay):
                        got = ctx.marks()
                        if ctx.status != 'ret':
                            return [('a value built as a declared variant never aborts the switch', z3.BoolVal(False))]
                        exp = [k + 1] + ([pay_expected(ctx, xs, pay)] if pay is not None else [])
                        return [('a variant returned through an optional / error union of its enum is still that variant', marks_eq(got, exp))]
                    ob = Ob(name, src, params, None, wpost, {'kind': 'switch-roundtrip-wrapped', 'sum': 'enum', 'through': wrap}, event_funcs={'mark'})
                    ob.handles_abort = True
                    obs.append(ob)
        # the same with only some variants named and a default arm (a shared tag then runs a wrong arm instead of crashing)
        named = [k for k in range(len(vs)) if k % 2 == 1] or [0]
        sub_arms = ', '.join('.%s => { mark(%d);%s }' % (vs[k][0], k + 1, payload_stmts(vs[k][1], 'v', vs[k][1] is not None)) for k in named) + ', _ => { mark(99); }'
        for k, (vn, pay, _) in enumerate(vs):
            name = 'rs_%s_%s' % (en.name, vn)
            if pay is None:
                src = '%s :: () { e : %s = %s.%s; switch v in e { %s } }' % (name, en.name, en.name, vn, sub_arms); params = []
            else:
                src = '%s :: (x: %s) { e : %s = %s.%s.(x); switch v in e { %s } }' % (name, pay.src(), en.name, en.name, vn, sub_arms); params = [pay_param(pay)]

            def post2(ctx, xs, k=k, pay=pay, named=named):
                got = ctx.marks()
                if ctx.status != 'ret':
                    return [('a switch with a default arm never aborts', z3.BoolVal(False))]
                exp = ([k + 1] + ([pay_expected(ctx, xs, pay)] if pay is not None else [])) if k in named else [99]
                return [('the variant that was built runs its own arm, or the default arm when it is not named', marks_eq(got, exp))]
            ob = Ob(name, src, params, None, post2, {'kind': 'switch-roundtrip-default', 'sum': 'enum'}, event_funcs={'mark'})
            ob.handles_abort = True
            obs.append(ob)
    return obs, decls


def other_sum_obs():
    obs = []
    for oty, nm in ((Opt(S('i32')), 'oi32'), (Opt(S('u8')), 'ou8'), (Opt(S('i64')), 'oi64'), (Opt(PAIR), 'opair')):
        pay = oty.sub
        for mode in ('all', 'default'):
            name = 'sw_%s_%s' % (nm, mode)
            some_arm = '%s => { mark(1);%s }' % (pay.src(), payload_stmts(pay, 'v', False))
            other = 'nil => { mark(2); }' if mode == 'all' else '_ => { mark(99); }'
            src = '%s :: (p: ^%s) { switch v in p^ { %s, %s } }' % (name, oty.src(), some_arm, other)

            def post(ctx, xs, oty=oty, pay=pay, mode=mode):
                b = ctx.bufs[0]
                tag = ctx.init_bytes(b, oty.tag_offset(), 1)
                got = ctx.marks()
                goals = [('the scrutinee is not modified', frame(ctx, b, [])), ('no access outside the scrutinee', ctx.accesses_inside())]
                if ctx.status == 'abort':
                    return goals + [('only an undeclared tag can abort, and only without a default arm', z3.And(z3.UGT(tag, 1), z3.BoolVal(mode == 'all'))),
                                    ('no arm ran before the abort', z3.BoolVal(len(got) == 0))]
                goals.append(('a present value runs the payload arm', z3.Implies(tag == 1, marks_eq(got, [1] + payload_marks(ctx, b, pay)))))
                goals.append(('nil runs the nil/default arm', z3.Implies(tag == 0, marks_eq(got, [2] if mode == 'all' else [99]))))
                goals.append(('an undeclared tag reaches only the default arm', z3.Implies(z3.UGT(tag, 1), z3.And(z3.BoolVal(mode == 'default'), marks_eq(got, [99])))))
                return goals
            ob = Ob(name, src, [('buf', oty, False)], None, post, {'kind': 'switch', 'sum': 'optional', 'arms': mode}, event_funcs={'mark'})
            ob.handles_abort = True; obs.append(ob)
    ety = Err(S('bool'), S('i32'))
    name = 'sw_eu'
    src = 'sw_eu :: (p: ^bool!i32) { switch v in p^ { i32 => { mark(1); mark(u64.(v)); }, bool => { mark(2); mark(u64.(v)); } } }'

    def eupost(ctx, xs):
        b = ctx.bufs[0]
        tag = ctx.init_bytes(b, ety.tag_offset(), 1)
        got = ctx.marks()
        goals = [('the scrutinee is not modified', frame(ctx, b, [])), ('no access outside the scrutinee', ctx.accesses_inside())]
        if ctx.status == 'abort':
            return goals + [('only an undeclared tag can abort', z3.UGT(tag, 1)), ('no arm ran before the abort', z3.BoolVal(len(got) == 0))]
        goals.append(('ok runs the payload arm', z3.Implies(tag == 1, marks_eq(got, [1, ext64(ctx.init_bytes(b, 0, 4), True)]))))
        goals.append(('error runs the error arm', z3.Implies(tag == 0, marks_eq(got, [2, ext64(ctx.init_bytes(b, 0, 1), False)]))))
        goals.append(('an undeclared tag never reaches an arm', z3.ULE(tag, 1)))
        return goals
    ob = Ob(name, src, [('buf', ety, False)], None, eupost, {'kind': 'switch', 'sum': 'error-union'}, event_funcs={'mark'},
            pre=None)
    ob.handles_abort = True; obs.append(ob)
    # nullable pointer
    src = ('sw_np_in :: (o: ?^i32) { switch v in o { ^i32 => { mark(1); mark(u64.(v^)); }, nil => { mark(2); } } }\n'
           'sw_np :: (q: ^i32, isnil: bool) { o : ?^i32 = q; if isnil { o = nil; } sw_np_in(o); }')

    def nppost(ctx, xs):
        b = ctx.bufs[0]
        got = ctx.marks()
        goals = [('the pointee is not modified', frame(ctx, b, [])), ('no access outside the pointee', ctx.accesses_inside()),
                 ('a nullable-pointer switch never aborts', z3.BoolVal(ctx.status == 'ret'))]
        if ctx.status != 'ret':
            return goals
        goals.append(('a non-nil pointer runs the pointer arm', z3.Implies(xs[0] == 0, marks_eq(got, [1, ext64(ctx.init_bytes(b, 0, 4), True)]))))
        goals.append(('nil runs the nil arm', z3.Implies(xs[0] == 1, marks_eq(got, [2]))))
        return goals
    ob = Ob('sw_np', src, [('buf', S('i32'), False), ('scalar', 'bool')], None, nppost, {'kind': 'switch', 'sum': 'nullable-pointer'}, event_funcs={'mark'})
    ob.handles_abort = True; obs.append(ob)
    # nullable pointer with a default arm: naming the pointer, naming nil, naming neither
    for nm, arms, exp_some, exp_nil in (('some', '^i32 => { mark(1); mark(u64.(v^)); }, _ => { mark(99); }', 'ptr', [99]),
                                        ('nil', 'nil => { mark(2); }, _ => { mark(99); }', [99], [2]),
                                        ('none', '_ => { mark(99); }', [99], [99])):
        name = 'sw_npd_' + nm
        src = ('%s_in :: (o: ?^i32) { switch v in o { %s } }\n'
               '%s :: (q: ^i32, isnil: bool) { o : ?^i32 = q; if isnil { o = nil; } %s_in(o); }' % (name, arms, name, name))

        def dpost(ctx, xs, exp_some=exp_some, exp_nil=exp_nil):
            b = ctx.bufs[0]
            got = ctx.marks()
            goals = [('the pointee is not modified', frame(ctx, b, [])), ('a nullable-pointer switch never aborts', z3.BoolVal(ctx.status == 'ret'))]
            if ctx.status != 'ret':
                return goals
            es = [1, ext64(ctx.init_bytes(b, 0, 4), True)] if exp_some == 'ptr' else exp_some
            goals.append(('a non-nil pointer runs the arm naming it, else the default arm', z3.Implies(xs[0] == 0, marks_eq(got, es))))
            goals.append(('nil runs the arm naming it, else the default arm', z3.Implies(xs[0] == 1, marks_eq(got, exp_nil))))
            return goals
        ob = Ob(name, src, [('buf', S('i32'), False), ('scalar', 'bool')], None, dpost, {'kind': 'switch', 'sum': 'nullable-pointer', 'arms': 'default+' + nm}, event_funcs={'mark'})
        ob.handles_abort = True; obs.append(ob)
    return obs


def nested_same_name_obs(en):
    """a switch inside an arm that re-uses the argument's name: after the inner switch the name is the OUTER arm's
    payload again (the argument is bound per arm, in the arm's own scope)"""
    discs = en.discriminants()
    tag_off = en.tag_offset()
    oty = Opt(S('i64'))
    obs = []
    for inner_other, code in (('nil => { mark(101); }', 101), ('_ => { mark(102); }', 102)):
        name = 'sw_nest_%d' % code
        inner = 'switch v in q^ { i64 => { mark(100); mark(u64.(v)); }, %s }' % inner_other
        arms = []
        for k, (vn, pay, _) in enumerate(en.variants):
            if pay is None or pay.kind == 'struct':
                continue
            arms.append('%s.%s => { %s mark(%d);%s }' % (en.name, vn, inner, k + 1, payload_stmts(pay, 'v', True)))
        src = '%s :: (p: ^%s, q: ^?i64) { switch v in p^ { %s, _ => { mark(99); } } }' % (name, en.name, ', '.join(arms))

        def post(ctx, xs, code=code):
            b, q = ctx.bufs
            tag = ctx.init_bytes(b, tag_off, 1); qtag = ctx.init_bytes(q, oty.tag_offset(), 1)
            got = ctx.marks()
            if ctx.status == 'abort':
                # only an undeclared tag of the INNER optional can abort, and only without a default arm
                return [('abort only for an undeclared inner tag without a default arm', z3.And(z3.UGT(qtag, 1), z3.BoolVal(code == 101)))]
            goals = []
            for k, (vn, pay, _) in enumerate(en.variants):
                if pay is None or pay.kind == 'struct':
                    goals.append(('variant %s runs the default arm' % vn, z3.Implies(tag == discs[k], marks_eq(got, [99]))))
                    continue
                for qt, inner_marks in ((1, [100, ctx.init_bytes(q, 0, 8)]), (0, [code])):
                    exp = inner_marks + [k + 1] + payload_marks(ctx, b, pay)
                    goals.append(('after the inner switch the argument of arm %s is its own payload again' % vn,
                                  z3.Implies(z3.And(tag == discs[k], qtag == qt), marks_eq(got, exp))))
            return goals
        ob = Ob(name, src, [('buf', en, False), ('buf', oty, False)], None, post, {'kind': 'switch-nested-same-argument', 'sum': 'enum'}, event_funcs={'mark'})
        ob.handles_abort = True
        obs.append(ob)
    return obs


def distinct_cases(chk, prover):
    """switches over a distinct wrapper of an enum, in both spellings, each compiled on its own
    (the pinned tree panics on them: known finding)"""
    bad = 0
    en = Enum('Es', [('A', S('i32'), None), ('B', None, None)])
    for spelling, a, b in (('shorthand', '.A', '.B'), ('qualified', 'Es.A', 'Es.B')):
        name = 'sw_ds_' + spelling
        src = (clifcheck.PRELUDE + 'Es :: enum { A: i32, B };\nDs :: distinct Es;\n'
               '%s :: (p: ^Ds) { switch v in p^ { %s => { mark(1); mark(u64.(i32.(v))); }, %s => { mark(2); } } }\n' % (name, a, b))
        refs = 'refs :: () { r0 := %s; }\n' % name
        mod, out = clifcheck.compile_module('C11', 'distinct_' + spelling, src + refs + 'main :: () { refs(); }\n')
        if mod is None:
            key = {'kind': 'switch', 'sum': 'distinct-enum', 'spelling': spelling, 'failure': 'compile'}
            first = [l for l in out.splitlines() if 'panicked' in l or l.startswith('error')][:1]
            what = 'a switch with %s arms over a distinct wrapper of an enum is not compiled: %s' % (spelling, first[0][:200] if first else 'compiler failed')
            path = replaylib.make_compile_replay('C11', 'distinct_' + spelling, src + refs + 'main :: () { refs(); }\n', out, what, key)
            chk.report(key, what, path)
            bad += 1
            continue

        def post(ctx, xs):
            b_ = ctx.bufs[0]
            tag = ctx.init_bytes(b_, en.tag_offset(), 1)
            got = ctx.marks()
            goals = [('the scrutinee is not modified', frame(ctx, b_, [])), ('no access outside the scrutinee', ctx.accesses_inside())]
            if ctx.status == 'abort':
                return goals + [('only an undeclared tag can abort', z3.UGT(tag, 1)), ('no arm ran before the abort', z3.BoolVal(len(got) == 0))]
            return goals + [('A runs its arm with its payload', z3.Implies(tag == 0, marks_eq(got, [1, ext64(ctx.init_bytes(b_, 0, 4), True)]))),
                            ('B runs its arm', z3.Implies(tag == 1, marks_eq(got, [2]))), ('an undeclared tag never reaches an arm', z3.ULE(tag, 1))]
        ob = Ob(name, src.split('\n')[-2], [('buf', en, False)], None, post, {'kind': 'switch', 'sum': 'distinct-enum', 'spelling': spelling}, event_funcs={'mark'})
        ob.handles_abort = True
        bad += check_ob(chk, prover, mod, ob, (src, refs), track_loads=True, max_visits=4)
    return bad


def run(chk, tier, seed):
    common.build_capy()
    rnd = random.Random(seed)
    nen = 12 if tier == 'quick' else 480
    enums = [Enum('Ek0', [('V0', S('i32'), None), ('V1', S('u8'), 7), ('V2', None, None), ('V3', S('i64'), 40), ('V4', PAIR, None), ('V5', None, 250)])]
    enums += [gen_enum(rnd, i) for i in range(nen)]
    obs = []; decls = [PAIR.decl()]
    for i, en in enumerate(enums):
        decls.append(en.decl())
        o, _ = enum_switch_obs(en, rnd, i)
        obs += o
    obs += other_sum_obs()
    obs += nested_same_name_obs(enums[0])
    ro, rdecls = roundtrip_obs(rnd, 6 if tier == 'quick' else 240)
    obs += ro; decls += rdecls
    mod, obs, src, refs = clifcheck.compile_obligations(chk, 'switches', clifcheck.PRELUDE + '\n'.join(decls) + '\n', obs)
    chk.opcodes.update(mod.opcodes)
    prover = Prover(chk)
    bad = 0
    for ob in obs:
        bad += check_ob(chk, prover, mod, ob, (src, refs), track_loads=True, max_visits=4)
    bad += distinct_cases(chk, prover)
    chk.cov.update({'programs': len(obs) + 2, 'disagreements_checked': bad, 'sum_types': len(enums) + 7,
                    'explanation': 'programs = switch functions; each proved for all 256 tag values and all payload bytes'})
    chk.bounds.update({'variants_per_enum': '<= 6', 'payloads': ['none', 'u8', 'u16', 'bool', 'i32', 'i64', 'struct{i32,u8}'],
                       'outside_claim': ['acceptance rules of switch (exhaustiveness, duplicates, foreign variants)', 'any/str payloads']})
    chk.assumptions.extend(['layout oracle = documented rules (lib/capyty.py): tag byte after the largest payload', 'Cranelift lowers each CLIF opcode as documented'])


def replay(path):
    return replaylib.run_replay(path)
