"""C12 — implicit conversion is consistent, order-independent and weaker than casting.

Engine A (DESIGN.md section 5, C12): the real Ty::can_fit_into / can_cast_to / is_weak_replaceable_by / max are executed
symbolically on two types built from symbolic description bytes (llharness/src/ty_laws.rs). Laws: fit(A,A);
fit(A,B) => cast(A,B); weak_replaceable(A,B) => fit(A,B); max(A,B) = max(B,A); max(A,B) = M => fit(A,M) and fit(B,M).
"""
from lib import tylaws

LEVEL = 'model_checking'
MASK = 1 | 2 | 4 | 8 | 16


def run(chk, tier, seed):
    tylaws.run_laws(chk, 'C12', MASK, tier, seed)


def replay(path):
    from lib import replay as replaylib
    return replaylib.run_replay(path)
