"""C13 — distinct types, variants and named structs are nominal.

Engine A (DESIGN.md section 5, C13): same harness as C12 (llharness/src/ty_laws.rs) with the nominality assertions: a value of a
distinct type or a named struct (root constructor) is never implicitly accepted (`can_fit_into`) where a nominal type
with another uid, or the distinct's own underlying type, is expected; casts between a distinct and its underlying
type are accepted in both directions; no binary operator has an output type for a nominal operand together with another
nominal type or its own strongly typed underlying type (either operand order; untyped literals excepted). Variants of two enums with identical payloads are covered by harness_variants
(through the real ENUM_MAP). Value preservation of distinct casts is decided on the generated code by an Engine-B
obligation (identity for all values).
"""
import z3

from lib import common, clifcheck, llcheck, tylaws
from lib.llcheck import Job, explore, model_of, eval_inputs
from lib.clifcheck import Prover
from engine.llsym import State, is_sym
from engine.clifsym import Engine as ClifEngine, State as ClifState

LEVEL = 'model_checking'
MASK = 32 | 64 | 128


def variants_part(chk, mod, so):
    def build(part):
        st = State()
        sel = z3.BitVec('sel', 8); w = z3.BitVec('w', 8)
        st.pc += [z3.ULT(sel, 36), z3.Or(*[w == x for x in (0, 8, 32, 64, 255)])]
        if part is not None:
            st.pc.append(z3.URem(sel, 6) == part)
        return st, [sel, w], {'sel': sel, 'w': w}

    def judge(ex, p, inputs):
        if p.end[0] != 'ret':
            m = model_of(ex, p)
            return {'what': '%s: %s' % (p.end[0], str(p.end[1])[:120]), 'inputs': eval_inputs(m, inputs)} if m is not None else None
        r = p.end[1]
        rr = r if is_sym(r) else z3.BitVecVal(r, 32)
        m = model_of(ex, p, [(rr & 32) != 0])
        if m is None:
            return None
        return {'what': 'a variant is implicitly accepted where another nominal type is expected', 'inputs': eval_inputs(m, inputs)}
    job = Job('@harness_variants', build, judge)
    tot = explore(chk, mod, job, list(range(6)), nproc=6)
    names = ['E1.A', 'E1.B', 'E2.A', 'E1', 'E2', 'payload int']
    for v in tot['violations'][:10]:
        sel, w = v['inputs']['sel'], v['inputs']['w']
        args = [('int', sel, 'c_uint8'), ('int', w, 'c_uint8')]
        r = llcheck.native_call(so, '@harness_variants', args, ret='c_uint32')
        what = 'variant nominality: A = %s, B = %s, payload width %d: %s; native %r' % (names[sel % 6], names[(sel // 6) % 6], w, v['what'], r)
        if r[0] == 'ret' and not (r[1] & 32):
            chk.inconclusive_note('model did not reproduce natively: ' + what); continue
        key = {'kind': 'variant-nominality', 'a': names[sel % 6], 'b': names[(sel // 6) % 6]}
        path = llcheck.make_harness_replay('C13', 'variant_%d' % len(chk.violations), 'llharness', '@harness_variants', args, what, key, ret='c_uint32',
                                           extra={'how': 'reproduced when (result & 32) != 0'})
        chk.report(key, what, path)


def cast_identity_part(chk):
    """Engine B: Distinct.(x) and back is the identity on the generated code, for all values"""
    common.build_capy()
    src = clifcheck.PRELUDE + '''D32 :: distinct i32;
D8 :: distinct u8;
D64 :: distinct u64;
DD :: distinct D32;
to_d32 :: (x: i32) -> i32 { d := D32.(x); i32.(d) }
to_d8 :: (x: u8) -> u8 { d : D8 = D8.(x); u8.(d) }
to_d64 :: (x: u64) -> u64 { u64.(D64.(x)) }
to_dd :: (x: i32) -> i32 { i32.(D32.(DD.(D32.(x)))) }
add_d :: (x: i32, y: i32) -> i32 { a := D32.(x); b := D32.(y); i32.(a + b) }
refs :: () { a := to_d32; b := to_d8; c := to_d64; d := to_dd; e := add_d; }
main :: () { refs(); }
'''
    mod, out = clifcheck.compile_module('C13', 'distinct_casts', src)
    if mod is None:
        raise common.Inconclusive('distinct cast template rejected:\n' + out[-800:])
    prover = Prover(chk)
    for fn, types, spec in (('to_d32', ['i32'], lambda a: a[0]), ('to_d8', ['u8'], lambda a: a[0]), ('to_d64', ['u64'], lambda a: a[0]),
                            ('to_dd', ['i32'], lambda a: a[0]), ('add_d', ['i32', 'i32'], lambda a: a[0] + a[1])):
        args = [z3.BitVec('a%d' % i, clifcheck.bits_of(t)) for i, t in enumerate(types)]
        eng, paths = clifcheck.run_paths(chk, mod, fn, args)
        for p in paths:
            r, model = prover.prove(list(p.pc), z3.And(z3.BoolVal(p.status == 'ret'), p.ret[0] == spec(args)) if p.status == 'ret' else z3.BoolVal(False))
            if r == 'sat':
                vals = [clifcheck.model_val(model, a) for a in args]
                nb = clifcheck.NativeBatch('C13', 'replay_' + fn, src.replace('main :: () { refs(); }\n', ''))
                nb.add(fn, list(zip(types, vals)), types[0])
                res = nb.run()
                exp = clifcheck.model_val(model, spec(args))
                what = 'cast through a distinct type is not value preserving: %s(%s) gives %r, expected %#x' % (fn, [hex(v) for v in vals], res, exp)
                if res and res[0] and res[0][0] == exp:
                    chk.inconclusive_note('model did not reproduce natively: ' + what); continue
                key = {'kind': 'distinct-cast-value', 'fn': fn}
                from lib import replay as replaylib
                path = replaylib.make_native_replay('C13', fn, nb.source(), '%016x\n;\n' % exp, 0, nb.last['stdout'], nb.last['rc'], what, key)
                chk.report(key, what, path)
            elif r == 'unknown':
                chk.inconclusive_note(fn + ': no verdict')


def run(chk, tier, seed):
    # partitions where A is nominal at the root (distinct, struct) against every B constructor
    parts = [(a, b) for a in (5, 8) for b in range(len(tylaws.CONS))]
    # nominal types nested in nominal types (`Timeout :: distinct Seconds`): depth 2 on either side, nominal roots
    # (the nested constructor is itself nominal in the quick tier; any constructor in the thorough tier)
    for ra, rb, da, db in [(5, 5, 1, 2), (5, 5, 2, 1), (8, 5, 1, 2), (5, 8, 1, 2), (8, 8, 1, 2), (8, 8, 2, 1), (5, 8, 2, 1), (8, 5, 2, 1)]:
        for inner in ((5, 8) if tier == 'quick' else range(1, len(tylaws.CONS))):
            parts.append((ra, rb, da, db, inner))
    tylaws.run_laws(chk, 'C13', MASK, tier, seed, parts=parts)
    ll, so = llcheck.build_harness('llharness')
    mod = llcheck.load_module(ll)
    variants_part(chk, mod, so)
    cast_identity_part(chk)
    chk.bounds['also'] = 'variants of two enums with identical payloads (harness_variants, 36 ordered pairs x 5 payload widths); value preservation of distinct casts on generated code for all values (5 functions)'


def replay(path):
    from lib import replay as replaylib
    return replaylib.run_replay(path)
