"""C16 — generic calls behave like calls to hand-substituted copies.

Engine B, the compiler against itself (DESIGN.md section 5, C16). For every generic function (1-3 comptime parameters: types
and integers) the template also contains the copy in which the comptime parameters are replaced by the
call's arguments. Both the call `g(i32, 3, a, b)` and the copy `g__i32_3(a, b)` are compiled by the real
compiler, executed symbolically on the same symbolic run-time arguments, and z3 proves for every pair of
jointly feasible paths that exit status, `mark` events and result agree. Instantiations with different comptime
arguments must be different symbols; two calls with equal arguments must be the same symbol or equivalent code.
"""
import random
import re
import z3

from lib import common, clifcheck, replay as replaylib
from lib.common import Inconclusive
from lib.clifcheck import Prover, model_val, bits_of, signed_of
from engine.clifsym import State, Engine, Unsupported

LEVEL = 'translation_validation'

INT_TYPES = ['i8', 'i16', 'i32', 'i64', 'u8', 'u16', 'u32', 'u64']


# ---- generic bodies: text with placeholders T (type), N (integer constant), U (second type) ------------------

BODIES = [
    # (name, comptime params, runtime params, return, body)
    ('acc', ['T: type', 'N: usize'], ['a: T', 'b: T'], 'T',
     'arr : [N]T; i : usize = 0; while i < N { arr[i] = a * T.(i) + b; i = i + 1; } acc : T = 0; i = 0; '
     'while i < N { acc = acc + arr[i]; i = i + 1; } if acc > a { mark(1); } acc'),
    ('absdiff', ['T: type'], ['x: T', 'y: T'], 'T', 'if x < y { mark(2); y - x } else { x - y }'),
    ('mix', ['T: type', 'U: type'], ['x: T', 'y: U'], 'U', 'z : U = U.(x); if z == y { mark(3); } r : U = (z ~ y) + U.(x >> T.(1)); r'),
    ('pick', ['T: type', 'N: usize'], ['x: T', 'i: usize'], 'T', 'arr : [N]T; j : usize = 0; while j < N { arr[j] = x + T.(j); j = j + 1; } arr[i]'),
    ('scale', ['K: i32', 'T: type'], ['x: T'], 'T', 'mark(u64.(K)); x * T.(K) - T.(K)'),
    ('loopbrk', ['T: type', 'N: usize'], ['x: T', 'lim: T'], 'T',
     'acc : T = x; i : usize = 0; while i < N { if acc > lim { mark(4); break; } acc = acc + acc; defer mark(5); i = i + 1; } acc'),
    ('nest', ['T: type', 'N: usize'], ['a: T', 'b: T'], 'T', 'absdiff(T, acc(T, N, a, b), b)'),
    ('count', ['N: usize'], ['x: usize'], 'usize', 'arr : [N]u8; arr.len + x'),
    ('twice', ['N: usize'], ['x: usize'], 'usize', 'count(N, x) * 2'),
    ('fwd', ['T: type', 'K: i32'], ['x: T'], 'T', 'scale(K, T, x) + T.(K)'),
    # comptime parameters declared AFTER run-time parameters and used as run-time values (optional 6th element: the
    # declaration order of all parameters)
    ('rmul', ['N: usize'], ['x: usize'], 'usize', 'x * N + N', ['x', 'N']),
    ('rmix', ['T: type', 'N: usize'], ['x: T', 'y: T'], 'T', 'mark(u64.(N)); x * T.(N) - y', ['T', 'x', 'N', 'y']),
    ('rlast', ['K: i32', 'M: i32'], ['x: i32', 'y: i32'], 'i32', 'mark(u64.(K)); mark(u64.(M)); (x + K) * M - y', ['x', 'K', 'y', 'M']),
    ('rfwd', ['N: usize'], ['x: usize'], 'usize', 'rmul(x + 1, N) + count(N, x)', ['x', 'N']),
]
NESTED = {
    'nest': lambda b: [('absdiff', {'T': b['T']}), ('acc', {'T': b['T'], 'N': b['N']})],
    'twice': lambda b: [('count', {'N': b['N']})],
    'fwd': lambda b: [('scale', {'K': b['K'], 'T': b['T']})],
    'rfwd': lambda b: [('rmul', {'N': b['N']}), ('count', {'N': b['N']})],
}
NESTED_BODY = {
    'nest': lambda b: 'absdiff__%s(acc__%s_%s(a, b), b)' % (b['T'], b['N'], b['T']),
    'twice': lambda b: 'count__%s(x) * 2' % b['N'],
    'fwd': lambda b: 'scale__%s_%s(x) + %s.(%s)' % (b['K'], b['T'], b['T'], b['K']),
    'rfwd': lambda b: 'rmul__%s(x + 1) + count__%s(x)' % (b['N'], b['N']),
}


def subst(text, binding):
    out = text
    for k, v in binding.items():
        out = re.sub(r'\b%s\b' % k, v, out)
    return out


def gen_instances(rnd, n):
    res = []
    for _ in range(n):
        name, cparams, rparams, ret, body = rnd.choice(BODIES)[:5]
        binding = {}
        for cp in cparams:
            pn, pt = [x.strip() for x in cp.split(':')]
            if pt == 'type':
                binding[pn] = rnd.choice(INT_TYPES)
            elif pt == 'usize':
                binding[pn] = str(rnd.randint(1, 3))
            else:
                binding[pn] = str(rnd.randint(1, 9))
        res.append((name, binding))
    return res


def copy_name(name, binding):
    return '%s__%s' % (name, '_'.join(binding[k] for k in sorted(binding)))


def sources(instances):
    lines = []
    def ordered(spec, comptime_items, runtime_items):
        """the parameters (or call arguments) of a generic in its declaration order"""
        cn = [c.split(':')[0].strip() for c in spec[1]]; rn = [r.split(':')[0].strip() for r in spec[2]]
        by = dict(zip(cn, comptime_items)); by.update(dict(zip(rn, runtime_items)))
        order = spec[5] if len(spec) > 5 else cn + rn
        return [by[n] for n in order]
    for spec in BODIES:
        name, cparams, rparams, ret, body = spec[:5]
        ps = ', '.join(ordered(spec, ['comptime ' + c for c in cparams], rparams))
        lines.append('%s :: (%s) -> %s { %s }' % (name, ps, ret, body))
    obs = []
    seen = {}
    for idx, (name, binding) in enumerate(instances):
        spec = [b for b in BODIES if b[0] == name][0]
        _, cparams, rparams, ret, body = spec[:5]
        cname = copy_name(name, binding)
        rp = [subst(p, binding) for p in rparams]
        rtypes = [p.split(':')[1].strip() for p in rp]
        rnames = [p.split(':')[0].strip() for p in rp]
        cargs = [binding[c.split(':')[0].strip()] for c in cparams]
        if cname not in seen:
            b2 = body
            if name in NESTED:
                # the nested generic calls are substituted too
                b2 = NESTED_BODY[name](binding)
                for dep, db in NESTED[name](binding):
                    dn = copy_name(dep, db)
                    if dn not in seen:
                        dspec = [b for b in BODIES if b[0] == dep][0]
                        lines.append('%s :: (%s) -> %s { %s }' % (dn, ', '.join(subst(p, db) for p in dspec[2]), subst(dspec[3], db), subst(dspec[4], db)))
                        seen[dn] = True
            lines.append('%s :: (%s) -> %s { %s }' % (cname, ', '.join(rp), subst(ret, binding), subst(b2, binding)))
            seen[cname] = True
        wname = 'call%d_%s' % (idx, cname)
        lines.append('%s :: (%s) -> %s { %s(%s) }' % (wname, ', '.join(rp), subst(ret, binding), name, ', '.join(ordered(spec, cargs, rnames))))
        obs.append({'wrapper': wname, 'copy': cname, 'types': rtypes, 'ret': subst(ret, binding), 'generic': name, 'binding': dict(binding)})
    return lines, obs


def observe(eng, mod, fn, args, pre):
    st = State(); st.pc.extend(pre)
    paths = eng.run(mod.by_pretty(fn), args, st)
    for p in paths:
        if p.status == 'bound':
            raise Inconclusive(fn + ': path cut at the unwinding bound')
    return paths


def obs_tuple(p):
    ev = [(n, tuple(a)) for n, a in p.events]
    return p.status, ev, (p.ret or [None])[0], p.exit_code


def run(chk, tier, seed):
    common.build_capy()
    rnd = random.Random(seed)
    fixed = [('acc', {'T': 'i32', 'N': '3'}), ('acc', {'T': 'i32', 'N': '3'}), ('acc', {'T': 'u64', 'N': '2'}), ('absdiff', {'T': 'i8'}),
             ('mix', {'T': 'i8', 'U': 'u32'}), ('mix', {'T': 'u16', 'U': 'i64'}), ('pick', {'T': 'u8', 'N': '3'}), ('scale', {'K': '7', 'T': 'i16'}),
             ('loopbrk', {'T': 'u8', 'N': '3'}), ('nest', {'T': 'i32', 'N': '2'}), ('acc', {'T': 'i32', 'N': '2'}),
             # the same outer generic instantiated again: nested generic calls must follow the outer call's own arguments
             ('nest', {'T': 'i32', 'N': '3'}), ('nest', {'T': 'u8', 'N': '2'}), ('nest', {'T': 'i32', 'N': '2'}),
             ('twice', {'N': '2'}), ('twice', {'N': '5'}), ('twice', {'N': '2'}), ('fwd', {'T': 'u16', 'K': '3'}), ('fwd', {'T': 'i64', 'K': '4'}),
             # comptime parameters that are not first in the parameter list
             ('rmul', {'N': '3'}), ('rmul', {'N': '7'}), ('rmix', {'T': 'i32', 'N': '2'}), ('rmix', {'T': 'u8', 'N': '3'}), ('rlast', {'K': '4', 'M': '9'}),
             ('rlast', {'K': '2', 'M': '3'}), ('rfwd', {'N': '2'}), ('rfwd', {'N': '3'})]
    instances = fixed + gen_instances(rnd, 14 if tier == "quick" else 900)
    lines, obs = sources(instances)
    src = clifcheck.PRELUDE + '\n'.join(lines) + '\n'
    refs = 'refs :: () {\n' + '\n'.join('    r%d := %s; q%d := %s;' % (i, o['wrapper'], i, o['copy']) for i, o in enumerate(obs)) + '\n}\n'
    mod, out = clifcheck.compile_module('C16', 'generics', src + refs + 'main :: () { refs(); }\n')
    bad = 0
    if mod is None:
        # the copies alone must compile (otherwise the template is wrong, not the compiler); then the generic calls
        # are added one at a time: a call whose addition makes the compiler reject or crash, while its hand-substituted
        # copy is accepted, is a difference between the call and the copy (calls may only interfere through shared state)
        wrappers = {o['wrapper'] for o in obs}
        base = [l for l in lines if l.split(' ::')[0] not in wrappers]

        def attempt(ws, nm):
            body = clifcheck.PRELUDE + '\n'.join(base + [l for l in lines if l.split(' ::')[0] in ws]) + '\n'
            rf = 'refs :: () {\n' + '\n'.join('    r%d := %s; q%d := %s;' % (i, o['wrapper'], i, o['copy']) if o['wrapper'] in ws else '    q%d := %s;' % (i, o['copy'])
                                             for i, o in enumerate(obs)) + '\n}\n'
            m, oo = clifcheck.compile_module('C16', nm, body + rf + 'main :: () { refs(); }\n')
            return m, oo, body, rf
        m0, out0, _, _ = attempt(set(), 'generics_copies_only')
        if m0 is None:
            raise Inconclusive('the hand-substituted copies of the C16 template were rejected by the compiler:\n' + out0[-1500:])
        keep = set()
        for o in obs:
            m1, out1, body1, rf1 = attempt(keep | {o['wrapper']}, 'generics_bisect')
            if m1 is not None:
                keep.add(o['wrapper']); continue
            first = [l for l in out1.splitlines() if 'panicked' in l or l.startswith('error') or 'Error defining' in l or 'Compilation(' in l][:1]
            key = {'kind': 'generic-call-not-compiled', 'generic': o['generic']}
            what = ('the generic call `%s` is not compiled although its hand-substituted copy `%s` is (other instantiations present: %s): %s'
                    % ([l for l in lines if l.startswith(o['wrapper'] + ' ::')][0][:160], o['copy'],
                       sorted({x['copy'] for x in obs if x['wrapper'] in keep and x['generic'] in (o['generic'], 'acc', 'absdiff')})[:6], first[0][:200] if first else 'compiler failed'))
            path = replaylib.make_compile_replay('C16', 'compile_' + o['wrapper'], body1 + rf1 + 'main :: () { refs(); }\n', out1, what, key)
            chk.report(key, what, path); bad += 1
        obs = [o for o in obs if o['wrapper'] in keep]
        mod, out, src, refs = attempt(keep, 'generics')
        if mod is None:
            raise Inconclusive('the C16 template is still rejected after removing the failing calls:\n' + out[-1500:])
    chk.opcodes.update(mod.opcodes)
    prover = Prover(chk)
    pairs = 0
    callee_of = {}
    for o in obs:
        args = [z3.BitVec('a%d' % i, bits_of(t)) for i, t in enumerate(o['types'])]
        pre = [z3.ULE(a, 1) for a, t in zip(args, o['types']) if t == 'bool']
        try:
            eng = Engine(mod, event_funcs={'mark'}, max_visits=16)
            pa = observe(eng, mod, o['wrapper'], args, pre)
            chk.funcs_encoded.update(eng.funcs_run); chk.solver_s += eng.solver_s
            chk.cov['ir_instructions_executed'] = chk.cov.get('ir_instructions_executed', 0) + eng.steps_total
            eng2 = Engine(mod, event_funcs={'mark'}, max_visits=16)
            pb = observe(eng2, mod, o['copy'], args, pre)
            chk.funcs_encoded.update(eng2.funcs_run); chk.solver_s += eng2.solver_s
            chk.cov['ir_instructions_executed'] = chk.cov.get('ir_instructions_executed', 0) + eng2.steps_total
        except Unsupported as e:
            raise Inconclusive('%s: %s' % (o['wrapper'], e))
        # which instantiation does the wrapper call?
        w = mod.funcs[mod.by_pretty(o['wrapper'])]
        callees = sorted({mod.functable.get(ext, (ext,))[0] for ext, _, _ in w.fns.values()} - {'puts', 'exit'})
        gen_callees = [c for c in callees if c in mod.funcs and mod.funcs[c].pretty and '<' in mod.funcs[c].pretty]
        callee_of[o['wrapper']] = (o['generic'], tuple(sorted(o['binding'].items())), tuple(gen_callees))
        failed = False
        for p in pa:
            for q in pb:
                hyps = list(p.pc) + list(q.pc)
                s = z3.Solver(); s.add(*hyps)
                if s.check() != z3.sat:
                    continue
                pairs += 1
                sa, ea, ra, xa = obs_tuple(p); sb, eb, rb, xb = obs_tuple(q)
                goal = z3.BoolVal(True)
                if sa != sb or len(ea) != len(eb) or any(x[0] != y[0] or len(x[1]) != len(y[1]) for x, y in zip(ea, eb)) or (ra is None) != (rb is None):
                    goal = z3.BoolVal(False)
                else:
                    conj = []
                    for x, y in zip(ea, eb):
                        conj += [u == v for u, v in zip(x[1], y[1])]
                    if ra is not None:
                        conj.append(ra == rb)
                    goal = z3.And(*conj) if conj else z3.BoolVal(True)
                r, model = prover.prove(hyps, goal)
                if r == 'unsat':
                    continue
                if r == 'unknown':
                    chk.inconclusive_note(o['wrapper'] + ': no verdict'); continue
                failed = True
                reproduce(chk, src, o, args, model)
                break
            if failed:
                break
        bad += failed
        chk.sample({'generic_call': [l for l in lines if l.startswith(o['wrapper'] + ' ::')][0], 'copy': [l for l in lines if l.startswith(o['copy'] + ' ::')][0],
                    'paths': [len(pa), len(pb)], 'verdict': 'counterexample' if failed else 'equivalent for all run-time arguments'}, limit=6)
    # symbol discipline
    by_args = {}
    for w, (g, b, cs) in callee_of.items():
        by_args.setdefault((g, b), set()).update(cs)
    for (g1, b1), c1 in by_args.items():
        for (g2, b2), c2 in by_args.items():
            if (g1, b1) < (g2, b2) and g1 == g2 and (c1 & c2):
                key = {'kind': 'generic-symbol-shared', 'generic': g1}
                what = 'instantiations %s%s and %s%s of `%s` share the symbol(s) %s' % (g1, dict(b1), g2, dict(b2), g1, sorted(c1 & c2))
                path = replaylib.make_compile_replay('C16', 'shared_symbol_' + g1, src + refs + 'main :: () { refs(); }\n', '', what, key)
                chk.report(key, what, path); bad += 1
    chk.cov.update({'programs': len(obs), 'disagreements_checked': bad, 'path_pairs_compared': pairs,
                    'instantiation_symbols': {w: list(v[2]) for w, v in list(callee_of.items())[:12]},
                    'explanation': 'programs = (generic call, hand-substituted copy) pairs; every jointly feasible path pair is compared for all run-time arguments'})
    chk.bounds.update({'comptime_params': '1-3 (types i8..u64, integers 1..9, array lengths 1..3)', 'loop_iterations': '<= 3 (the comptime N)',
                       'outside_claim': ['generic functions defined in another file', 'varargs generics', 'struct/distinct type arguments', 'inline header references']})
    chk.assumptions.extend(['the hand-substituted copy is compiled by the same compiler: this is an internal-consistency check (C01/C08 tie the copy to the language semantics)',
                            'Cranelift lowers each CLIF opcode as documented'])


def reproduce(chk, src, o, args, model):
    vals = [model_val(model, a) for a in args]
    nb = clifcheck.NativeBatch('C16', 'replay_' + o['wrapper'], src)
    nb.add(o['wrapper'], list(zip(o['types'], vals)), o['ret'])
    nb.add(o['copy'], list(zip(o['types'], vals)), o['ret'])
    res = nb.run()
    what = 'generic call %s and its hand-substituted copy %s differ on arguments %s: %s' % (o['wrapper'], o['copy'], [hex(v) for v in vals], res)
    if res is None:
        chk.inconclusive_note(o['wrapper'] + ': replay program did not build'); return
    if res[0] is not None and res[1] is not None and res[0] == res[1]:
        chk.inconclusive_note('model for %s did not reproduce natively: %s' % (o['wrapper'], res)); return
    key = {'kind': 'generic-vs-copy', 'generic': o['generic']}
    path = replaylib.make_native_replay('C16', o['wrapper'], nb.source(), None, None, nb.last['stdout'], nb.last['rc'], what, key,
                                        extra={'how': 'the two `;`-separated output groups are the generic call and the copy on the same arguments; they must be equal'})
    chk.report(key, what, path)


def replay(path):
    return replaylib.run_replay(path)
