"""C17 — type layouts obey the documented representation rules.

Engine A, inductive-step style (DESIGN.md section 5, C17): through the guarded `verif_hooks::layout` entry points the real
`calc_single` / `StructLayout::new` / `padding_needed_for` / `stride` are executed symbolically. The children of a
constructor get SEEDED layouts with symbolic (size <= 64, align in {1,2,4,8}); one constructor is laid out on top and
the harness (llharness_cg/src/lib.rs) asserts the documented rules: struct fields in declaration order at aligned,
non-overlapping offsets inside the struct's size, struct align = max field align (a power of two <= 8); array size =
length x element stride; distinct/variant copy size and align; optional-of-pointer is pointer-sized without tag; every
other optional, error union and enum keeps its one-byte tag right after the largest payload; primitives: size =
width/8 (pointer width for isize/usize/pointers), align = min(size, 8); pointer widths 64 and 32.
Because child layouts are arbitrary values satisfying the invariant, one step covers every nesting depth.
"""
import random
import z3

from lib import common, llcheck
from lib.llcheck import BUF, Job, explore
from lib.strcheck import judge_zero
from engine.llsym import State

LEVEL = 'model_checking'
CRATE = 'llharness_cg'
CTORS = ['enum(3 variants)', 'optional', 'error union', 'array', 'distinct', 'variant', 'optional of pointer', 'slice', 'pointer', 'any', 'anonymous array']


def bytes_state(n, constraints):
    st = State()
    bs = [z3.BitVec('b%d' % i, 8) for i in range(n)]
    for i, b in enumerate(bs):
        st.mem[BUF + i] = b
    st.pc += constraints(bs)
    return st, bs


def build_struct(part):
    pw, n, shifts = part
    def cons(bs):
        c = [bs[0] == pw, bs[1] == n]
        for i in range(4):
            c += [z3.ULE(bs[2 + 2 * i], 64), bs[3 + 2 * i] == (shifts[i] if i < n else 0)]
        return c
    st, bs = bytes_state(10, cons)
    return st, [BUF], {'bytes': bs}


ARRAY_LENGTHS = [0, 1, 2, 3, 7, 8, 255, 256, 1000, 65535]


def build_ctor(part):
    ctor, pw, shifts, length = part
    def cons(bs):
        c = [bs[0] == ctor, bs[1] == pw]
        for i in range(3):
            c += [z3.ULE(bs[2 + 2 * i], 64), bs[3 + 2 * i] == shifts[i]]
        # the array length is concrete per partition: symbolic length x symbolic stride is a symbolic multiplication
        c += [bs[8] == (length & 0xff), bs[9] == (length >> 8)]
        return c
    st, bs = bytes_state(10, cons)
    return st, [BUF], {'bytes': bs}


def build_prim(part):
    kind, pw = part
    st, bs = bytes_state(3, lambda bs: [bs[0] == kind, bs[2] == pw, z3.ULT(bs[1], 6)])
    return st, [BUF], {'bytes': bs}


def build_pad(part):
    st = State()
    off = z3.BitVec('off', 32); sh = z3.BitVec('sh', 8)
    st.pc += [sh == part, z3.ULT(off, 1 << 31)]
    return st, [off, sh], {'offset': off, 'shift': sh}


def handle(chk, so, entry, tot, describe):
    for v in tot['violations'][:10]:
        ins = v['inputs']
        if 'bytes' in ins:
            args = [('bytes', list(ins['bytes']))]
        else:
            args = [('int', ins['offset'], 'c_uint32'), ('int', ins['shift'], 'c_uint8')]
        r = llcheck.native_call(so, entry, args, ret='c_uint32')
        what = '%s: %s — %s; native call %r' % (entry, describe(ins), v['what'], r)
        if r[0] == 'ret' and r[1] == 0:
            chk.inconclusive_note('model did not reproduce natively: ' + what); continue
        key = {'kind': 'layout', 'entry': entry, 'code': str(v['code'])}
        path = llcheck.make_harness_replay('C17', 'layout_%d' % len(chk.violations), CRATE, entry, args, what, key, ret='c_uint32')
        chk.report(key, what, path)


def run(chk, tier, seed):
    ll, so = llcheck.build_harness(CRATE)
    mod = llcheck.load_module(ll)
    rnd = random.Random(seed)

    def conc(bs):
        st = State()
        for i, b in enumerate(bs):
            st.mem[BUF + i] = b
        return st, [BUF]
    cases = [[rnd.randrange(2), rnd.randint(1, 4)] + [rnd.choice([rnd.randint(0, 64), rnd.randrange(4)]) if i % 2 else rnd.randint(0, 64) for i in range(8)] for _ in range(8)]
    cases = [[c[0], c[1]] + [x if i % 2 == 0 else x % 4 for i, x in enumerate(c[2:])] for c in cases]
    llcheck.selftest(chk, mod, so, '@harness_struct_layout', conc, lambda c: [('bytes', list(c))], cases, ret='c_uint32', ret_bits=32)
    cases2 = [[rnd.randrange(11), rnd.randrange(2)] + [rnd.randint(0, 64) if i % 2 == 0 else rnd.randrange(4) for i in range(6)] + [rnd.randrange(256), rnd.randrange(4)] for _ in range(12)]
    llcheck.selftest(chk, mod, so, '@harness_ctor_layout', conc, lambda c: [('bytes', list(c))], cases2, ret='c_uint32', ret_bits=32)
    fields = [1, 2, 3] if tier == 'quick' else [1, 2, 3, 4]
    import itertools
    # alignments are concrete per partition (divisions by a symbolic power of two stall the bit-blaster); sizes stay symbolic
    sparts = [(pw, n, sh) for pw in (0, 1) for n in fields for sh in itertools.product(range(4), repeat=n)]
    if tier == 'quick':
        sparts = [p for p in sparts if p[0] == 0 or p[1] <= 2]
    tot = explore(chk, mod, Job('@harness_struct_layout', build_struct, judge_zero), sparts, nproc=16)
    handle(chk, so, '@harness_struct_layout', tot, lambda ins: 'struct of %d fields, (size, align shift) = %s, pointer width %s' % (ins['bytes'][1], ins['bytes'][2:2 + 2 * ins['bytes'][1]], 32 if ins['bytes'][0] else 64))
    used = {0: 3, 1: 1, 2: 2, 3: 1, 4: 2, 5: 2, 6: 1, 7: 1, 8: 1, 9: 0, 10: 1}     # how many seeded children a constructor looks at
    cparts = []
    for c in range(11):
        for pw in (0, 1):
            for sh in itertools.product(range(4), repeat=used[c]):
                for ln in (ARRAY_LENGTHS if c in (3, 10) else [0]):
                    cparts.append((c, pw, tuple(sh) + (0,) * (3 - used[c]), ln))
    tot = explore(chk, mod, Job('@harness_ctor_layout', build_ctor, judge_zero), cparts, nproc=16)
    handle(chk, so, '@harness_ctor_layout', tot, lambda ins: '%s over children (size, align shift) = %s, length %d, pointer width %s' % (CTORS[ins['bytes'][0]], ins['bytes'][2:8], ins['bytes'][8] | ins['bytes'][9] << 8, 32 if ins['bytes'][1] else 64))
    tot = explore(chk, mod, Job('@harness_prim_layout', build_prim, judge_zero), [(k, pw) for k in range(10) for pw in (0, 1)], nproc=16)
    handle(chk, so, '@harness_prim_layout', tot, lambda ins: 'primitive kind %d width selector %d pointer width %s' % (ins['bytes'][0], ins['bytes'][1], 32 if ins['bytes'][2] else 64))
    tot = explore(chk, mod, Job('@harness_padding', build_pad, judge_zero), [0, 1, 2, 3], nproc=4)
    handle(chk, so, '@harness_padding', tot, lambda ins: 'padding_needed_for(%d, %d)' % (ins['offset'], 1 << ins['shift']))
    chk.cov['exhaustive'] = True
    chk.cov['explanation'] = 'states = finished paths of the layout harnesses; child layouts are symbolic (seeded), so each constructor step is decided for all child sizes/alignments'
    chk.bounds.update({'child_size': '0..64', 'child_align': '{1,2,4,8} (enumerated per partition; sizes symbolic)', 'array_length': ARRAY_LENGTHS, 'struct_fields': fields, 'enum_variants': 3, 'pointer_widths': [64, 32],
                       'constructors': CTORS + ['struct', 'anonymous struct', 'every primitive'],
                       'outside_claim': ['comparison with the host C compiler\'s offsetof (differential test, no solver role)', 'child sizes > 64', 'structs with more than 4 fields']})
    chk.assumptions.extend(['the map keys (child types) are concrete; only the seeded numbers are symbolic', 'internment::Intern is the leaked-box model (shims/internment)',
                            'hooks: codegen::verif_hooks::layout (add-only, --cfg capy_verif)', 'rustc 1.88 LLVM IR at opt-level 1; llsym validated against native runs'])


def replay(path):
    from lib import replay as replaylib
    return replaylib.run_replay(path)
