"""C18 — runtime reflection describes the code actually generated (simple type ids only).

Three lemmas (DESIGN.md section 5, C18):
 L1 (Engine A, hook on simple_id / simple_id_with_align): for ALL disc < 63, size < 31, align < 15, signed the id has
    bits 26..31 = disc, 0..4 = size, 5..8 = align, 9 = signed (so two simple ids are equal iff their fields are), and
    simple_id(disc, bit_width, signed) uses size = bit_width/8, align = clamp(size, 1, 8); no assertion inside can fail.
 L2 (Engine B, core/src/meta.capy compiled by the current compiler): for ALL ty: u32 with ty >> 26 < 16:
    size_of(ty) = ty & 31, align_of(ty) = (ty >> 5) & 15, stride_of(ty) = size rounded up to align.
 L3 (Engine B, closed terms): for every primitive T, the id the compiler embeds for T decodes (through the compiled
    meta functions) to the size and alignment of the stack slot the same compiler allocates for `x : T`, which
    equal the documented primitive rule.
L1 and L2 and L3 together: reflected size/align/stride of every primitive is what generated code uses.
Compound types (the tables emitted by compile_meta_builtins), `any`, and type-value equality over compound types are
outside this check.
"""
import re
import z3

from lib import common, clifcheck, llcheck, replay as replaylib
from lib.common import Inconclusive
from lib.llcheck import Job, explore, model_of, eval_inputs
from lib.clifcheck import Prover, model_val
from engine.llsym import State, is_sym
from engine.clifsym import Engine as ClifEngine, State as ClifState, Unsupported

LEVEL = 'model_checking'
CRATE = 'llharness_cg'

PRIMS = [('i8', 1, 1), ('i16', 2, 2), ('i32', 4, 4), ('i64', 8, 8), ('i128', 16, 8), ('u8', 1, 1), ('u16', 2, 2), ('u32', 4, 4), ('u64', 8, 8), ('u128', 16, 8),
         ('isize', 8, 8), ('usize', 8, 8), ('f32', 4, 4), ('f64', 8, 8), ('bool', 1, 1), ('char', 1, 1), ('str', 8, 8), ('rawptr', 8, 8), ('type', 4, 4)]


def l1(chk, mod, so):
    def build(part):
        st = State()
        d, s, a, g = [z3.BitVec(n, 32) for n in ('disc', 'size', 'align', 'signed')]
        st.pc += [z3.ULT(d, 63), z3.ULT(s, 31), z3.ULT(a, 15), z3.ULE(g, 1)]
        return st, [d, s, a, g], {'disc': d, 'size': s, 'align': a, 'signed': g}

    def judge(ex, p, inputs):
        if p.end[0] != 'ret':
            m = model_of(ex, p)
            return {'what': '%s: %s' % (p.end[0], str(p.end[1])[:100]), 'inputs': eval_inputs(m, inputs)} if m is not None else None
        r = p.end[1]; r = r if is_sym(r) else z3.BitVecVal(r, 32)
        d, s, a, g = inputs['disc'], inputs['size'], inputs['align'], inputs['signed']
        want = (d << 26) | (g << 9) | (a << 5) | s
        m = model_of(ex, p, [r != want])
        if m is None:
            return None
        return {'what': 'id %#x, expected %#x' % (m.eval(r, model_completion=True).as_long(), m.eval(want, model_completion=True).as_long()), 'inputs': eval_inputs(m, inputs)}
    tot = explore(chk, mod, Job('@harness_simple_id', build, judge), [None], nproc=1)
    report(chk, so, '@harness_simple_id', tot, ['disc', 'size', 'align', 'signed'])

    def build2(part):
        st = State()
        d, w, g = [z3.BitVec(n, 32) for n in ('disc', 'bit_width', 'signed')]
        st.pc += [z3.ULT(d, 63), z3.Or(*[w == x for x in (0, 8, 16, 32, 64, 128)]), z3.ULE(g, 1)]
        return st, [d, w, g], {'disc': d, 'bit_width': w, 'signed': g}

    def judge2(ex, p, inputs):
        if p.end[0] != 'ret':
            m = model_of(ex, p)
            return {'what': '%s: %s' % (p.end[0], str(p.end[1])[:100]), 'inputs': eval_inputs(m, inputs)} if m is not None else None
        r = p.end[1]; r = r if is_sym(r) else z3.BitVecVal(r, 32)
        d, w, g = inputs['disc'], inputs['bit_width'], inputs['signed']
        size = z3.LShR(w, 3)
        align = z3.If(size == 0, z3.BitVecVal(1, 32), z3.If(z3.UGT(size, 8), z3.BitVecVal(8, 32), size))
        want = (d << 26) | (g << 9) | (align << 5) | size
        m = model_of(ex, p, [r != want])
        if m is None:
            return None
        return {'what': 'id %#x, expected %#x' % (m.eval(r, model_completion=True).as_long(), m.eval(want, model_completion=True).as_long()), 'inputs': eval_inputs(m, inputs)}
    tot = explore(chk, mod, Job('@harness_simple_id_bits', build2, judge2), [None], nproc=1)
    report(chk, so, '@harness_simple_id_bits', tot, ['disc', 'bit_width', 'signed'])


def report(chk, so, entry, tot, names):
    for v in tot['violations'][:5]:
        args = [('int', v['inputs'][n], 'c_uint32') for n in names]
        r = llcheck.native_call(so, entry, args, ret='c_uint32')
        what = '%s(%s): %s; native call %r' % (entry, {n: v['inputs'][n] for n in names}, v['what'], r)
        key = {'kind': 'simple-id', 'entry': entry}
        ins = v['inputs']
        if entry == '@harness_simple_id':
            want = (ins['disc'] << 26) | (ins['signed'] << 9) | (ins['align'] << 5) | ins['size']
        else:
            size = ins['bit_width'] // 8
            want = (ins['disc'] << 26) | (ins['signed'] << 9) | (max(1, min(8, size)) << 5) | size
        if r[0] == 'ret' and r[1] == want:
            chk.inconclusive_note('model did not reproduce natively: ' + what); continue
        path = llcheck.make_harness_replay('C18', 'id_%d' % len(chk.violations), CRATE, entry, args, what, key, ret='c_uint32', ok_value=want)
        chk.report(key, what, path)


TEMPLATE = '''core :: #mod("core");
meta :: core.meta;
sz :: (t: type) -> usize { meta.size_of(t) }
al :: (t: type) -> usize { meta.align_of(t) }
sd :: (t: type) -> usize { meta.stride_of(t) }
'''


def l2_l3(chk):
    common.build_capy()
    lines = [TEMPLATE]
    names = []
    for t, _, _ in PRIMS:
        n = t.replace(' ', '_')
        lines.append('id_%s :: () -> usize { meta.size_of(%s) * 256 + meta.align_of(%s) }' % (n, t, t))
        lines.append('slot_%s :: (p: ^%s) -> %s { x : %s = p^; x }' % (n, t, t, t) if t not in ('type',) else 'slot_%s :: (p: ^%s) { x : %s = p^; }' % (n, t, t))
        names += ['id_' + n, 'slot_' + n]
    refs = 'refs :: () { a := sz; b := al; c := sd;\n' + '\n'.join('    r%d := %s;' % (i, n) for i, n in enumerate(names)) + '\n}\n'
    src = '\n'.join(lines) + '\n'
    mod, out = clifcheck.compile_module('C18', 'reflect', src + refs + 'main :: () { refs(); }\n')
    if mod is None:
        raise Inconclusive('the C18 template was rejected by the compiler:\n' + out[-1500:])
    chk.opcodes.update(mod.opcodes)
    prover = Prover(chk)
    # L2: decode of every simple id
    ty = z3.BitVec('ty', 32)
    pre = [z3.ULT(z3.LShR(ty, 26), 16)]
    size = z3.ZeroExt(32, ty & 31); align = z3.ZeroExt(32, z3.LShR(ty, 5) & 15)
    specs = {'sz': size, 'al': align, 'sd': (size + align - 1) & ~(align - 1)}
    for fn, want in specs.items():
        eng, paths = clifcheck.run_paths(chk, mod, fn, [ty], pre=pre, max_visits=6)
        for p in paths:
            if p.status != 'ret':
                r, model = prover.prove(list(p.pc), z3.BoolVal(False))
            else:
                r, model = prover.prove(list(p.pc), p.ret[0] == want)
            if r == 'unsat':
                continue
            if r == 'unknown':
                chk.inconclusive_note('%s: no verdict' % fn); continue
            v = model_val(model, ty)
            key = {'kind': 'reflect-decode', 'fn': fn}
            what = 'core.meta %s on the simple type id %#x (disc %d, size %d, align %d) does not return the field the id carries' % (
                {'sz': 'size_of', 'al': 'align_of', 'sd': 'stride_of'}[fn], v, v >> 26, v & 31, (v >> 5) & 15)
            path = replaylib.make_compile_replay('C18', 'decode_' + fn, src + refs + 'main :: () { refs(); }\n', '', what, key)
            chk.report(key, what, path)
    chk.cov['programs'] = chk.cov.get('programs', 0) + 3
    # L3: closed terms — the id embedded for each primitive decodes to the slot the compiler allocates
    closed = []
    for t, dsize, dalign in PRIMS:
        n = t.replace(' ', '_')
        eng = ClifEngine(mod, max_visits=6)
        try:
            paths = eng.run(mod.by_pretty('id_' + n), [], ClifState())
        except Unsupported as e:
            raise Inconclusive('id_%s: %s' % (n, e))
        chk.funcs_encoded.update(eng.funcs_run)
        if len(paths) != 1 or paths[0].status != 'ret' or not z3.is_bv_value(z3.simplify(paths[0].ret[0])):
            raise Inconclusive('id_%s did not evaluate to a constant' % n)
        v = z3.simplify(paths[0].ret[0]).as_long()
        rsize, ralign = v >> 8, v & 0xff
        f = mod.funcs[mod.by_pretty('slot_' + n)]
        slots = [sa for sa in f.slots.values() if sa[0] == dsize] or list(f.slots.values())
        ssize, salign = (slots[0] if slots else (None, None))
        closed.append({'type': t, 'reflected': [rsize, ralign], 'slot': [ssize, salign], 'documented': [dsize, dalign]})
        if (rsize, ralign) != (dsize, dalign) or (ssize is not None and (ssize, salign) != (dsize, dalign)):
            key = {'kind': 'reflect-vs-codegen', 'type': t}
            what = 'type %s: core.meta reports size %d align %d, the compiler allocates a slot of size %s align %s, the documented rule is %d/%d' % (t, rsize, ralign, ssize, salign, dsize, dalign)
            nsrc = src + 'out_hex_ :: () {}\n'
            path = replaylib.make_compile_replay('C18', 'prim_' + n, src + refs + 'main :: () { refs(); }\n', '', what, key)
            chk.report(key, what, path)
    chk.cov['closed_terms'] = closed


def run(chk, tier, seed):
    import random
    rnd = random.Random(seed)
    ll, so = llcheck.build_harness(CRATE)
    mod = llcheck.load_module(ll)
    cases = [(rnd.randrange(63), rnd.randrange(31), rnd.randrange(15), rnd.randrange(2)) for _ in range(16)]
    llcheck.selftest(chk, mod, so, '@harness_simple_id', lambda c: (State(), list(c)), lambda c: [('int', v, 'c_uint32') for v in c], cases, ret='c_uint32', ret_bits=32)
    l1(chk, mod, so)
    l2_l3(chk)
    chk.cov['exhaustive'] = True
    chk.cov['explanation'] = 'L1: paths of the real simple_id functions over all field values; L2: paths of the compiled core.meta decoders over all simple ids; L3: closed terms per primitive (recorded as closed_terms, not as solver verdicts)'
    chk.bounds.update({'L1': 'disc < 63, size < 31, align < 15 (the asserted domain), bit widths {0,8,16,32,64,128}', 'L2': 'all 2^30 type ids whose discriminant is < 16',
                       'L3': [p[0] for p in PRIMS], 'outside_claim': ['compound types (array/struct/enum/... tables emitted by compile_meta_builtins)', '`any`', 'type-value equality over compound types',
                                                                     'get_type_info decoders']})
    chk.assumptions.extend(['hook codegen::verif_hooks::convert (add-only)', 'the meta_type_to_u32 builtin is executed from its printed CLIF',
                            'rustc 1.88 LLVM IR at opt-level 1 (L1); Cranelift opcode semantics as documented (L2, L3)'])


def replay(path):
    return replaylib.run_replay(path)
