"""C18 — runtime reflection describes the code actually generated (simple type ids only).

Three lemmas (DESIGN.md section 5, C18):
 L1 (Engine A, hook on simple_id / simple_id_with_align): for ALL disc < 63, size < 31, align < 15, signed the id has
    bits 26..31 = disc, 0..4 = size, 5..8 = align, 9 = signed (so two simple ids are equal iff their fields are), and
    simple_id(disc, bit_width, signed) uses size = bit_width/8, align = clamp(size, 1, 8); no assertion inside can fail.
 L2 (Engine B, core/src/meta.capy compiled by the current compiler): for ALL ty: u32 with ty >> 26 < 16:
    size_of(ty) = ty & 31, align_of(ty) = (ty >> 5) & 15, stride_of(ty) = size rounded up to align.
 L3 (Engine B, closed terms): for every primitive T, the id the compiler embeds for T decodes (through the compiled
    meta functions) to the size and alignment of the stack slot the same compiler allocates for `x : T`, which
    equal the documented primitive rule.
L1 and L2 and L3 together: reflected size/align/stride of every primitive is what generated code uses.
 L4 (Engine B, closed terms): for 28 compound types (depth <= 2), size/stride/align read by the compiled core.meta from
    the tables the compiler emits (object-file data with relocations) = the stack slot allocated for `x : T` = the element
    step of generated indexing code = the documented rule; pairwise type-value equality. Two declaration orders.
    The same programs also evaluate get_type_info facts: member count, member offsets (against `^p.field` in generated
    code), member types and names, optional / error-union / enum tag offsets, payload types, array length, pointer
    mutability, distinct sub type.
`any` is outside this check.
"""
import re
import z3

from lib import common, clifcheck, llcheck, replay as replaylib
from lib.common import Inconclusive
from lib.llcheck import Job, explore, model_of, eval_inputs
from lib.clifcheck import Prover, model_val
from engine.llsym import State, is_sym
from engine.clifsym import Engine as ClifEngine, State as ClifState, Unsupported

LEVEL = 'model_checking'
CRATE = 'llharness_cg'

PRIMS = [('i8', 1, 1), ('i16', 2, 2), ('i32', 4, 4), ('i64', 8, 8), ('i128', 16, 8), ('u8', 1, 1), ('u16', 2, 2), ('u32', 4, 4), ('u64', 8, 8), ('u128', 16, 8),
         ('isize', 8, 8), ('usize', 8, 8), ('f32', 4, 4), ('f64', 8, 8), ('bool', 1, 1), ('char', 1, 1), ('str', 8, 8), ('rawptr', 8, 8), ('type', 4, 4)]


def l1(chk, mod, so):
    def build(part):
        st = State()
        d, s, a, g = [z3.BitVec(n, 32) for n in ('disc', 'size', 'align', 'signed')]
        st.pc += [z3.ULT(d, 63), z3.ULT(s, 31), z3.ULT(a, 15), z3.ULE(g, 1)]
        return st, [d, s, a, g], {'disc': d, 'size': s, 'align': a, 'signed': g}

    def judge(ex, p, inputs):
        if p.end[0] != 'ret':
            m = model_of(ex, p)
            return {'what': '%s: %s' % (p.end[0], str(p.end[1])[:100]), 'inputs': eval_inputs(m, inputs)} if m is not None else None
        r = p.end[1]; r = r if is_sym(r) else z3.BitVecVal(r, 32)
        d, s, a, g = inputs['disc'], inputs['size'], inputs['align'], inputs['signed']
        want = (d << 26) | (g << 9) | (a << 5) | s
        m = model_of(ex, p, [r != want])
        if m is None:
            return None
        return {'what': 'id %#x, expected %#x' % (m.eval(r, model_completion=True).as_long(), m.eval(want, model_completion=True).as_long()), 'inputs': eval_inputs(m, inputs)}
    tot = explore(chk, mod, Job('@harness_simple_id', build, judge), [None], nproc=1)
    report(chk, so, '@harness_simple_id', tot, ['disc', 'size', 'align', 'signed'])

    def build2(part):
        st = State()
        d, w, g = [z3.BitVec(n, 32) for n in ('disc', 'bit_width', 'signed')]
        st.pc += [z3.ULT(d, 63), z3.Or(*[w == x for x in (0, 8, 16, 32, 64, 128)]), z3.ULE(g, 1)]
        return st, [d, w, g], {'disc': d, 'bit_width': w, 'signed': g}

    def judge2(ex, p, inputs):
        if p.end[0] != 'ret':
            m = model_of(ex, p)
            return {'what': '%s: %s' % (p.end[0], str(p.end[1])[:100]), 'inputs': eval_inputs(m, inputs)} if m is not None else None
        r = p.end[1]; r = r if is_sym(r) else z3.BitVecVal(r, 32)
        d, w, g = inputs['disc'], inputs['bit_width'], inputs['signed']
        size = z3.LShR(w, 3)
        align = z3.If(size == 0, z3.BitVecVal(1, 32), z3.If(z3.UGT(size, 8), z3.BitVecVal(8, 32), size))
        want = (d << 26) | (g << 9) | (align << 5) | size
        m = model_of(ex, p, [r != want])
        if m is None:
            return None
        return {'what': 'id %#x, expected %#x' % (m.eval(r, model_completion=True).as_long(), m.eval(want, model_completion=True).as_long()), 'inputs': eval_inputs(m, inputs)}
    tot = explore(chk, mod, Job('@harness_simple_id_bits', build2, judge2), [None], nproc=1)
    report(chk, so, '@harness_simple_id_bits', tot, ['disc', 'bit_width', 'signed'])


def report(chk, so, entry, tot, names):
    for v in tot['violations'][:5]:
        args = [('int', v['inputs'][n], 'c_uint32') for n in names]
        r = llcheck.native_call(so, entry, args, ret='c_uint32')
        what = '%s(%s): %s; native call %r' % (entry, {n: v['inputs'][n] for n in names}, v['what'], r)
        key = {'kind': 'simple-id', 'entry': entry}
        ins = v['inputs']
        if entry == '@harness_simple_id':
            want = (ins['disc'] << 26) | (ins['signed'] << 9) | (ins['align'] << 5) | ins['size']
        else:
            size = ins['bit_width'] // 8
            want = (ins['disc'] << 26) | (ins['signed'] << 9) | (max(1, min(8, size)) << 5) | size
        if r[0] == 'ret' and r[1] == want:
            chk.inconclusive_note('model did not reproduce natively: ' + what); continue
        path = llcheck.make_harness_replay('C18', 'id_%d' % len(chk.violations), CRATE, entry, args, what, key, ret='c_uint32', ok_value=want)
        chk.report(key, what, path)


TEMPLATE = '''core :: #mod("core");
meta :: core.meta;
sz :: (t: type) -> usize { meta.size_of(t) }
al :: (t: type) -> usize { meta.align_of(t) }
sd :: (t: type) -> usize { meta.stride_of(t) }
'''


def l2_l3(chk):
    common.build_capy()
    lines = [TEMPLATE]
    names = []
    for t, _, _ in PRIMS:
        n = t.replace(' ', '_')
        lines.append('id_%s :: () -> usize { meta.size_of(%s) * 256 + meta.align_of(%s) }' % (n, t, t))
        lines.append('slot_%s :: (p: ^%s) -> %s { x : %s = p^; x }' % (n, t, t, t) if t not in ('type',) else 'slot_%s :: (p: ^%s) { x : %s = p^; }' % (n, t, t))
        names += ['id_' + n, 'slot_' + n]
    refs = 'refs :: () { a := sz; b := al; c := sd;\n' + '\n'.join('    r%d := %s;' % (i, n) for i, n in enumerate(names)) + '\n}\n'
    src = '\n'.join(lines) + '\n'
    mod, out = clifcheck.compile_module('C18', 'reflect', src + refs + 'main :: () { refs(); }\n')
    if mod is None:
        raise Inconclusive('the C18 template was rejected by the compiler:\n' + out[-1500:])
    chk.opcodes.update(mod.opcodes)
    prover = Prover(chk)
    # L2: decode of every simple id
    ty = z3.BitVec('ty', 32)
    pre = [z3.ULT(z3.LShR(ty, 26), 16)]
    size = z3.ZeroExt(32, ty & 31); align = z3.ZeroExt(32, z3.LShR(ty, 5) & 15)
    specs = {'sz': size, 'al': align, 'sd': (size + align - 1) & ~(align - 1)}
    for fn, want in specs.items():
        eng, paths = clifcheck.run_paths(chk, mod, fn, [ty], pre=pre, max_visits=6)
        for p in paths:
            if p.status != 'ret':
                r, model = prover.prove(list(p.pc), z3.BoolVal(False))
            else:
                r, model = prover.prove(list(p.pc), p.ret[0] == want)
            if r == 'unsat':
                continue
            if r == 'unknown':
                chk.inconclusive_note('%s: no verdict' % fn); continue
            v = model_val(model, ty)
            key = {'kind': 'reflect-decode', 'fn': fn}
            what = 'core.meta %s on the simple type id %#x (disc %d, size %d, align %d) does not return the field the id carries' % (
                {'sz': 'size_of', 'al': 'align_of', 'sd': 'stride_of'}[fn], v, v >> 26, v & 31, (v >> 5) & 15)
            path = replaylib.make_compile_replay('C18', 'decode_' + fn, src + refs + 'main :: () { refs(); }\n', '', what, key)
            chk.report(key, what, path)
    chk.cov['programs'] = chk.cov.get('programs', 0) + 3
    # L3: closed terms — the id embedded for each primitive decodes to the slot the compiler allocates
    closed = []
    for t, dsize, dalign in PRIMS:
        n = t.replace(' ', '_')
        eng = ClifEngine(mod, max_visits=6)
        try:
            paths = eng.run(mod.by_pretty('id_' + n), [], ClifState())
        except Unsupported as e:
            raise Inconclusive('id_%s: %s' % (n, e))
        chk.funcs_encoded.update(eng.funcs_run)
        if len(paths) != 1 or paths[0].status != 'ret' or not z3.is_bv_value(z3.simplify(paths[0].ret[0])):
            raise Inconclusive('id_%s did not evaluate to a constant' % n)
        v = z3.simplify(paths[0].ret[0]).as_long()
        rsize, ralign = v >> 8, v & 0xff
        f = mod.funcs[mod.by_pretty('slot_' + n)]
        slots = [sa for sa in f.slots.values() if sa[0] == dsize] or list(f.slots.values())
        ssize, salign = (slots[0] if slots else (None, None))
        closed.append({'type': t, 'reflected': [rsize, ralign], 'slot': [ssize, salign], 'documented': [dsize, dalign]})
        if (rsize, ralign) != (dsize, dalign) or (ssize is not None and (ssize, salign) != (dsize, dalign)):
            key = {'kind': 'reflect-vs-codegen', 'type': t}
            what = 'type %s: core.meta reports size %d align %d, the compiler allocates a slot of size %s align %s, the documented rule is %d/%d' % (t, rsize, ralign, ssize, salign, dsize, dalign)
            nsrc = src + 'out_hex_ :: () {}\n'
            path = replaylib.make_compile_replay('C18', 'prim_' + n, src + refs + 'main :: () { refs(); }\n', '', what, key)
            chk.report(key, what, path)
    chk.cov['closed_terms'] = closed


def compound_types():
    """named declarations + the list of compound types (depth <= 2) whose reflection is compared with the generated code"""
    from lib import capyty as T
    S = T.S
    cell = T.Struct('Cell', [('tag', S('u8')), ('inner', T.Opt(S('u16')))])
    pair = T.Struct('Pair', [('a', S('u8')), ('b', S('u64'))])
    t3 = T.Struct('T3', [('a', S('u16')), ('b', S('u8'))])
    nest = T.Struct('Nest', [('c', cell), ('d', S('u8')), ('e', T.Array(2, t3))])
    en = T.Enum('En', [('A', None, None), ('B', S('u64'), None), ('C', T.Array(3, S('u8')), None)])
    en2 = T.Enum('En2', [('X', S('u16'), None), ('Y', t3, None)])
    dist = T.Distinct('Dist', t3)
    dopt = T.Distinct('DOpt', T.Opt(S('u32')))
    # members whose size is not a multiple of their alignment, followed by a member of smaller or equal alignment
    ou = T.Struct('OptThen', [('a', T.Opt(S('u32'))), ('b', S('u32'))])
    ou2 = T.Struct('NestThen', [('a', T.Struct('Inner9', [('x', S('u64')), ('y', S('u8'))])), ('b', S('u64')), ('c', S('u16'))])
    decls = [cell, pair, t3, nest, en, en2, dist, dopt, ou2.fields[0][1], ou, ou2]
    tys = [cell, pair, t3, nest, en, en2, dist, dopt, ou, ou2,
           T.Opt(S('u8')), T.Opt(S('u16')), T.Opt(S('u64')), T.Opt(cell), T.Opt(T.Opt(S('u8'))), T.Opt(T.Array(2, T.Opt(S('u16')))), T.Opt(T.Ptr(S('u8'))),
           T.Opt(t3), T.Opt(en), T.Opt(dopt),
           T.Err(pair, S('u64')), T.Err(t3, S('u16')), T.Err(en, cell),
           T.Array(3, t3), T.Array(2, T.Opt(S('u32'))), T.Array(2, T.Array(3, S('u16'))), T.Array(2, cell), T.Array(3, T.Opt(cell)),
           T.Ptr(t3), T.Ptr(T.Opt(S('u16')), True)]
    return decls, tys


def read_str(mod, fn, data, relocs):
    """runs a closed function returning `str` and reads the NUL-terminated bytes it points to"""
    eng = ClifEngine(mod, max_visits=40, data=data)
    eng.data_relocs = relocs
    try:
        paths = eng.run(mod.by_pretty(fn), [], ClifState())
    except Unsupported:
        return None
    if len(paths) != 1 or paths[0].status != 'ret':
        return None
    ptr = z3.simplify(paths[0].ret[0])
    if not z3.is_bv_value(ptr):
        return None
    out = bytearray()
    for i in range(64):
        b = z3.simplify(eng.load(paths[0], z3.BitVecVal(ptr.as_long() + i, 64), 1))
        if not z3.is_bv_value(b):
            return None
        if b.as_long() == 0:
            break
        out.append(b.as_long())
    return out.decode('latin1')


def l4(chk, order):
    """L4 (Engine B, closed terms): for compound types, the size / stride / alignment that the compiled core.meta reads
    from the tables emitted by compile_meta_builtins equal (a) the stack slot the compiler allocates for `x : T`,
    (b) the element step of `^p[1]` on a `^[2]T` in generated code and (c) the documented layout rule; and two type
    values are equal exactly when they are the same type. `order` permutes the functions, because type ids are given
    out in the order types are first met."""
    import os
    from lib import elfdata
    decls, tys = compound_types()
    idx = list(range(len(tys)))
    if order == 'reversed':
        idx.reverse()
    lines = [TEMPLATE] + [d.decl() for d in decls]
    names = []
    for k in idx:
        t = tys[k].src()
        lines.append('cid_%d :: () -> usize { meta.size_of(%s) * 4294967296 + meta.stride_of(%s) * 65536 + meta.align_of(%s) }' % (k, t, t, t))
        lines.append('cslot_%d :: (p: ^%s) { x : %s = p^; }' % (k, t, t))
        lines.append('cstep_%d :: (p: ^[2]%s) -> ^%s { ^p[1] }' % (k, t, t))
        names += ['cid_%d' % k, 'cslot_%d' % k, 'cstep_%d' % k]
    # structure reflection (get_type_info): one closed function per reported fact; `want` is the documented value,
    # `code` (when present) a function whose generated code reveals the value really used
    facts = []      # (function name, kind of fact, type source, want, code function or None)

    def fact(k, tag, body, want, code=None, ret='usize'):
        fn = 'ti_%d_%s' % (k, tag)
        lines.append('%s :: () -> %s { switch i in meta.get_type_info(%s) { %s } }' % (fn, ret, tys[k].src(), body))
        names.append(fn); facts.append((fn, tag, tys[k].src(), want, code))
    for k in idx:
        ty = tys[k]
        if ty.kind == 'struct':
            offs, _ = ty.offsets()
            fact(k, 'members', '.Struct => i.members.len, _ => 99999', len(ty.fields))
            for j, ((fname, ft), off) in enumerate(zip(ty.fields, offs)):
                lines.append('cfld_%d_%d :: (p: ^%s) -> ^%s { ^p.%s }' % (k, j, ty.src(), ft.src(), fname)); names.append('cfld_%d_%d' % (k, j))
                fact(k, 'off%d' % j, '.Struct => i.members[%d].offset, _ => 99999' % j, off, 'cfld_%d_%d' % (k, j))
                fact(k, 'mty%d' % j, '.Struct => i.members[%d].ty == %s, _ => false' % (j, ft.src()), 1, ret='bool')
                fact(k, 'name%d' % j, '.Struct => i.members[%d].name, _ => ""' % j, fname, ret='str')
        elif ty.kind == 'opt':
            fact(k, 'sub', '.Optional => i.sub_ty == %s, _ => false' % ty.sub.src(), 1, ret='bool')
            fact(k, 'nonzero', '.Optional => i.is_non_zero, _ => false', 1 if ty.sub.kind == 'ptr' else 0, ret='bool')
            if ty.sub.kind != 'ptr':
                fact(k, 'tagoff', '.Optional => i.discriminant_offset, _ => 99999', ty.tag_offset())
        elif ty.kind == 'err':
            fact(k, 'errty', '.Error_Union => i.error_ty == %s, _ => false' % ty.err.src(), 1, ret='bool')
            fact(k, 'okty', '.Error_Union => i.payload_ty == %s, _ => false' % ty.ok.src(), 1, ret='bool')
            fact(k, 'tagoff', '.Error_Union => i.discriminant_offset, _ => 99999', ty.tag_offset())
        elif ty.kind == 'enum':
            fact(k, 'variants', '.Enum => i.variants.len, _ => 99999', len(ty.variants))
            fact(k, 'tagoff', '.Enum => i.discriminant_offset, _ => 99999', ty.tag_offset())
        elif ty.kind == 'array':
            fact(k, 'len', '.Array => i.len, _ => 99999', ty.n)
            fact(k, 'sub', '.Array => i.sub_ty == %s, _ => false' % ty.sub.src(), 1, ret='bool')
        elif ty.kind == 'ptr':
            fact(k, 'mutable', '.Pointer => i.mutable, _ => false', 1 if ty.mutable else 0, ret='bool')
            fact(k, 'sub', '.Pointer => i.sub_ty == %s, _ => false' % ty.sub.src(), 1, ret='bool')
        elif ty.kind == 'distinct':
            fact(k, 'sub', '.Distinct => i.sub_ty == %s, _ => false' % ty.sub.src(), 1, ret='bool')
    eqn = min(len(tys), 14)
    for i in range(eqn):
        for j in range(eqn):
            lines.append('teq_%d_%d :: () -> bool { %s == %s }' % (i, j, tys[i].src(), tys[j].src()))
            names.append('teq_%d_%d' % (i, j))
    refs = 'refs :: () {\n' + '\n'.join('    r%d := %s;' % (i, n) for i, n in enumerate(names)) + '\n}\n'
    src = '\n'.join(lines) + '\n' + refs + 'main :: () { refs(); }\n'
    mod, out = clifcheck.compile_module('C18', 'compound_' + order, src)
    if mod is None:
        raise Inconclusive('the C18 compound template was rejected by the compiler:\n' + out[-1500:])
    obj = os.path.join(common.workdir('C18'), 'out', 'compound_%s.o' % order)
    data = elfdata.data_objects(obj); relocs = elfdata.data_relocations(obj)

    def const_of(fn, args=()):
        eng = ClifEngine(mod, max_visits=40, data=data)
        eng.data_relocs = relocs
        try:
            paths = eng.run(mod.by_pretty(fn), list(args), ClifState())
        except Unsupported as e:
            raise Inconclusive('%s: %s' % (fn, e))
        chk.funcs_encoded.update(eng.funcs_run)
        chk.cov['ir_instructions_executed'] = chk.cov.get('ir_instructions_executed', 0) + eng.steps_total
        if len(paths) != 1 or paths[0].status != 'ret':
            return None, paths
        return z3.simplify(paths[0].ret[0]), paths
    closed = []
    for k in idx:
        ty = tys[k]
        v, paths = const_of('cid_%d' % k)
        if v is None or not z3.is_bv_value(v):
            key = {'kind': 'reflect-compound', 'type_kind': ty.kind, 'symptom': 'reflection does not return'}
            what = 'type %s (%s order): core.meta size_of/stride_of/align_of does not return a value (%s)' % (ty.src(), order, [p.status for p in paths][:3])
            chk.report(key, what, replaylib.make_compile_replay('C18', 'compound_%s_%d' % (order, k), src, '', what, key)); continue
        v = v.as_long()
        rsize, rstride, ralign = v >> 32, (v >> 16) & 0xffff, v & 0xffff
        f = mod.funcs[mod.by_pretty('cslot_%d' % k)]
        slots = list(f.slots.values())
        slot = slots[0] if len(slots) == 1 else None
        p = z3.BitVec('p', 64)
        sv, _ = const_of('cstep_%d' % k, [p])
        step = None
        if sv is not None:
            d = z3.simplify(sv - p)
            step = d.as_long() if z3.is_bv_value(d) else None
        doc = (ty.size(), ty.stride(), ty.align())
        closed.append({'type': ty.src(), 'order': order, 'reflected': [rsize, rstride, ralign], 'slot': list(slot) if slot else None, 'element_step': step, 'documented': list(doc)})
        bad = []
        if (rsize, rstride, ralign) != doc:
            bad.append('documented rule gives size %d stride %d align %d' % doc)
        if slot is not None and ty.size() > 0 and (slot[0], slot[1]) != (rsize, ralign):
            bad.append('the compiler allocates a slot of size %d align %d' % (slot[0], slot[1]))
        if step is not None and step != rstride:
            bad.append('generated code steps %d bytes between array elements' % step)
        if bad:
            key = {'kind': 'reflect-compound', 'type_kind': ty.kind, 'symptom': 'size/stride/align'}
            what = 'type %s (%s order): core.meta reports size %d stride %d align %d but %s' % (ty.src(), order, rsize, rstride, ralign, '; '.join(bad))
            chk.report(key, what, replaylib.make_compile_replay('C18', 'compound_%s_%d' % (order, k), src, '', what, key))
    nfacts = 0
    for fn, tag, tsrc, want, code in facts:
        nfacts += 1
        if tag.startswith('name'):
            got = read_str(mod, fn, data, relocs)
        else:
            v, paths = const_of(fn)
            got = v.as_long() if (v is not None and z3.is_bv_value(v)) else None
        used = None
        if code is not None:
            p = z3.BitVec('p', 64)
            sv, _ = const_of(code, [p])
            if sv is not None:
                d = z3.simplify(sv - p)
                used = d.as_long() if z3.is_bv_value(d) else None
        if got != want or (code is not None and used is not None and used != got):
            key = {'kind': 'reflect-structure', 'fact': ''.join(c for c in tag if not c.isdigit())}
            what = 'type %s (%s order): get_type_info reports %s = %r, the documented value is %r%s' % (tsrc, order, tag, got, want, ', generated code uses %r' % used if code else '')
            chk.report(key, what, replaylib.make_compile_replay('C18', 'fact_%s_%s' % (order, fn), src, '', what, key))
    chk.cov['structure_facts_checked'] = chk.cov.get('structure_facts_checked', 0) + nfacts
    for i in range(eqn):
        for j in range(eqn):
            v, paths = const_of('teq_%d_%d' % (i, j))
            got = v.as_long() if (v is not None and z3.is_bv_value(v)) else None
            if got != (1 if i == j else 0):
                key = {'kind': 'type-equality', 'same': i == j}
                what = '`%s == %s` (%s order) evaluates to %s' % (tys[i].src(), tys[j].src(), order, got)
                chk.report(key, what, replaylib.make_compile_replay('C18', 'teq_%s_%d_%d' % (order, i, j), src, '', what, key))
    chk.cov['closed_terms'] = chk.cov.get('closed_terms', []) + closed
    chk.cov['type_equalities_checked'] = chk.cov.get('type_equalities_checked', 0) + eqn * eqn
    chk.cov['programs'] = chk.cov.get('programs', 0) + 1


def run(chk, tier, seed):
    import random
    rnd = random.Random(seed)
    ll, so = llcheck.build_harness(CRATE)
    mod = llcheck.load_module(ll)
    cases = [(rnd.randrange(63), rnd.randrange(31), rnd.randrange(15), rnd.randrange(2)) for _ in range(16)]
    llcheck.selftest(chk, mod, so, '@harness_simple_id', lambda c: (State(), list(c)), lambda c: [('int', v, 'c_uint32') for v in c], cases, ret='c_uint32', ret_bits=32)
    l1(chk, mod, so)
    l2_l3(chk)
    for order in ('listed', 'reversed'):
        l4(chk, order)
    chk.cov['exhaustive'] = True
    chk.cov['explanation'] = 'L1: paths of the real simple_id functions over all field values; L2: paths of the compiled core.meta decoders over all simple ids; L3: closed terms per primitive (recorded as closed_terms, not as solver verdicts)'
    chk.bounds.update({'L1': 'disc < 63, size < 31, align < 15 (the asserted domain), bit widths {0,8,16,32,64,128}', 'L2': 'all 2^30 type ids whose discriminant is < 16',
                       'L3': [p[0] for p in PRIMS], 'L4': '30 compound types of depth <= 2 (structs, enums, distincts, optionals incl. nested, error unions, arrays, pointers) in two declaration orders; 14 x 14 type equalities',
                       'L4_facts': 'get_type_info: member count / offsets / types / names, tag offsets, payload and element types, array length, pointer mutability',
                       'outside_claim': ['`any`', 'variant discriminant values through reflection', 'compound types deeper than 2']})
    chk.assumptions.extend(['hook codegen::verif_hooks::convert (add-only)', 'the meta_type_to_u32 builtin is executed from its printed CLIF',
                            'rustc 1.88 LLVM IR at opt-level 1 (L1); Cranelift opcode semantics as documented (L2, L3)'])


def replay(path):
    return replaylib.run_replay(path)
