"""C19 — calls across the C boundary pass values intact (x86-64 System V), marshalling only.

Engine B + an independent System V classifier (DESIGN.md section 5, C19). Generated signatures (0-8 parameters: integer,
float, bool, pointer scalars and structs of 1-5 scalar/array fields, 1-64 bytes, mixed classes) are used in both
directions:
  out: `ext(args..) -> R extern` called from Capy with every struct byte and scalar symbolic;
  in:  a Capy function with the same signature, entered with symbolic register words / stack copies the way a C
       caller provides them (this is also what a call through a function pointer from C reaches).
Checked, for ALL byte values: the CLIF signature has the classifier's shape (per eightbyte INTEGER/SSE register of
sufficient width, MEMORY as a by-value stack copy, sret for MEMORY results, register exhaustion moves the whole
aggregate to memory, parameter order); each argument word at the extern call carries the struct's bytes of its
eightbyte; the callee's reassembled struct equals the incoming words; results likewise.
Counterexamples are replayed against a callee/caller compiled by the host gcc.
Trusted: Cranelift's lowering of a scalar-typed signature to registers/stack; the classifier below (psABI 3.2.3).
"""
import os
import random
import subprocess
import z3

from lib import common, clifcheck, replay as replaylib
from lib.capyty import S, Struct, Array, Ptr, Opt
from lib.common import Inconclusive
from lib.clifcheck import Prover, model_val, bits_of
from engine.clifsym import Engine, State, Unsupported
from engine.clifsym.parser import TY_BITS

LEVEL = 'translation_validation'
BV = z3.BitVecVal

SCALARS = ['u8', 'i16', 'i32', 'i64', 'u64', 'f32', 'f64', 'bool']
FIELD_POOL = [S('u8'), S('u16'), S('i32'), S('i64'), S('f32'), S('f64'), S('bool'), Array(2, S('f32')), Array(3, S('u8')), Array(2, S('i32')), Ptr(S('i32'))]


# ---- independent System V classification (psABI 3.2.3) -------------------------------------------------------

def flat_fields(t, off=0):
    """[(offset, size, is_float)] of the scalar leaves of a type"""
    if t.kind == 'scalar':
        return [(off, t.size(), t.is_float())]
    if t.kind == 'ptr' or (t.kind == 'opt' and t.sub.kind == 'ptr'):
        return [(off, 8, False)]
    if t.kind == 'array':
        res = []
        for i in range(t.n):
            res += flat_fields(t.sub, off + i * t.sub.stride())
        return res
    if t.kind == 'struct':
        offs, _ = t.offsets()
        res = []
        for (n, ft), o in zip(t.fields, offs):
            res += flat_fields(ft, off + o)
        return res
    raise ValueError(t.kind)


def classify(t):
    """'MEMORY' or a list of per-eightbyte ('INTEGER'|'SSE', bytes used in that eightbyte)"""
    size = t.size()
    if size > 16 or size == 0:
        return 'MEMORY' if size else []
    n = (size + 7) // 8
    classes = [None] * n
    for off, sz, fl in flat_fields(t):
        for eb in range(off // 8, (off + sz - 1) // 8 + 1):
            c = 'SSE' if fl else 'INTEGER'
            classes[eb] = c if classes[eb] is None else ('INTEGER' if 'INTEGER' in (c, classes[eb]) else 'SSE')
    out = []
    for i, c in enumerate(classes):
        used = min(8, size - 8 * i)
        out.append((c or 'SSE', used))       # an eightbyte of pure padding behaves like NO_CLASS; SSE placeholder never occurs for our pools
    return out


def expected_abi(params, ret):
    """abstract shape of the lowered signature: list of ('int'|'sse', min_bytes, param index, byte offset) / ('mem', size, param index) / ('sret',)"""
    shape = []
    int_regs, sse_regs = 6, 8
    ret_shape = None
    if ret is not None and ret.size() > 0:
        if ret.kind == 'scalar' or ret.kind == 'ptr':
            ret_shape = [('sse' if (ret.kind == 'scalar' and ret.is_float()) else 'int', ret.size(), 0)]
        else:
            c = classify(ret)
            if c == 'MEMORY':
                ret_shape = 'sret'; shape.append(('sret',)); int_regs -= 1
            else:
                ret_shape = [('sse' if k == 'SSE' else 'int', used, 8 * i) for i, (k, used) in enumerate(c)]
    for idx, t in enumerate(params):
        if t.size() == 0:
            continue
        if t.kind in ('scalar', 'ptr'):
            fl = t.kind == 'scalar' and t.is_float()
            if fl and sse_regs > 0:
                sse_regs -= 1
            elif not fl and int_regs > 0:
                int_regs -= 1
            shape.append(('sse' if fl else 'int', t.size(), idx, 0))       # on the stack when registers ran out: Cranelift's business
            continue
        c = classify(t)
        if c == 'MEMORY':
            shape.append(('mem', t.size(), idx)); continue
        ni = sum(1 for k, _ in c if k == 'INTEGER'); ns = sum(1 for k, _ in c if k == 'SSE')
        if ni <= int_regs and ns <= sse_regs:
            int_regs -= ni; sse_regs -= ns
            for i, (k, used) in enumerate(c):
                shape.append(('sse' if k == 'SSE' else 'int', used, idx, 8 * i))
        else:
            shape.append(('mem', t.size(), idx))
    return shape, ret_shape


def sig_matches(sig_params, shape):
    """CLIF parameter list [(type, purpose)] against the expected shape; returns an explanation or None"""
    if len(sig_params) != len(shape):
        return 'expected %d lowered parameters %s, the signature has %d: %s' % (len(shape), shape, len(sig_params), sig_params)
    for (ty, purpose), sh in zip(sig_params, shape):
        if sh[0] == 'sret':
            if purpose != 'sret':
                return 'expected an sret pointer, found %s %s' % (ty, purpose)
        elif sh[0] == 'mem':
            if not (purpose or '').startswith('sarg('):
                return 'parameter %d (%d bytes) must be passed in memory, found %s %s' % (sh[2], sh[1], ty, purpose)
            n = int(purpose[5:-1])
            if n < sh[1]:
                return 'by-value stack copy of %d bytes for a %d-byte aggregate' % (n, sh[1])
        else:
            if purpose is not None:
                return 'expected a register word for parameter %d, found %s %s' % (sh[2], ty, purpose)
            isf = ty in ('f32', 'f64')
            if isf != (sh[0] == 'sse'):
                return 'parameter %d eightbyte at %d is %s but is passed as %s' % (sh[2], sh[3], sh[0].upper(), ty)
            if TY_BITS[ty] // 8 < sh[1]:
                return 'parameter %d eightbyte at %d needs %d bytes but is passed as %s' % (sh[2], sh[3], sh[1], ty)
    return None


# ---- templates --------------------------------------------------------------------------------------------------

def gen_struct(rnd, idx):
    for _ in range(50):
        n = rnd.randint(1, 5)
        fields = [('f%d' % i, rnd.choice(FIELD_POOL)) for i in range(n)]
        st = Struct('T%d' % idx, fields)
        if 1 <= st.size() <= 64:
            return st
    return Struct('T%d' % idx, [('f0', S('i32'))])


CURATED = [
    [('a', S('i32')), ('b', S('f32')), ('c', S('i32'))], [('a', S('i64')), ('b', S('i64')), ('c', S('i64'))], [('x', S('f64')), ('y', S('f32'))],
    [('a', S('u8')), ('b', S('u8')), ('c', S('u8'))], [('a', S('f32')), ('b', S('f32'))], [('a', S('f32')), ('b', S('f32')), ('c', S('f32'))],
    [('a', S('f64')), ('b', S('f64'))], [('a', S('i64')), ('b', S('f64'))], [('a', S('f64')), ('b', S('i64'))], [('a', S('u8'))], [('a', S('i64')), ('b', S('u8'))],
    [('a', Array(2, S('f32'))), ('b', S('i32'))], [('a', S('f32')), ('b', S('i32')), ('c', S('f64'))], [('a', Ptr(S('i32'))), ('b', S('u16'))],
    [('a', Array(3, S('u8'))), ('b', Array(2, S('i32')))], [('a', S('i64')), ('b', S('i64')), ('c', S('u8'))],
    # arrays that start in the middle of an eightbyte and continue into the next one (the classes of the two eightbytes
    # differ: each element is classified at its own offset)
    [('tag', S('i32')), ('v', Array(2, S('f32')))], [('a', S('i32')), ('v', Array(3, S('f32')))], [('a', S('u8')), ('v', Array(3, S('f32')))],
    [('a', S('f32')), ('v', Array(2, S('i32')))], [('a', S('f32')), ('v', Array(3, S('i32')))], [('a', S('u16')), ('b', Array(2, S('f32'))), ('c', S('f32'))],
    [('v', Array(3, S('f32'))), ('t', S('i32'))], [('v', Array(3, S('i32'))), ('t', S('f32'))], [('a', S('f32')), ('v', Array(2, S('f32'))), ('t', S('u8'))],
]


class Case:
    def __init__(self, idx, params, ret):
        self.idx = idx; self.params = params; self.ret = ret    # Ty objects

    def sigtext(self):
        ps = ', '.join('a%d: %s' % (i, t.src()) for i, t in enumerate(self.params))
        return '(%s)%s' % (ps, ' -> ' + self.ret.src() if self.ret is not None else '')


def gen_cases(rnd, structs, n):
    cases = []
    # every struct alone as parameter and as result
    for st in structs:
        cases.append(([st], st))
    for _ in range(n):
        k = rnd.randint(0, 8)
        params = []
        for _ in range(k):
            params.append(rnd.choice(structs) if rnd.random() < 0.5 else S(rnd.choice(SCALARS)))
        ret = rnd.choice([None, S(rnd.choice(SCALARS)), rnd.choice(structs)])
        cases.append((params, ret))
    # register exhaustion: six integer scalars then a two-register struct, eight floats then a float struct
    two_int = [s for s in structs if classify(s) != 'MEMORY' and sum(1 for k, _ in classify(s) if k == 'INTEGER') == 2]
    two_sse = [s for s in structs if classify(s) != 'MEMORY' and sum(1 for k, _ in classify(s) if k == 'SSE') == 2]
    if two_int:
        cases.append(([S('i64')] * 5 + [two_int[0], S('i32')], None))
    if two_sse:
        cases.append(([S('f64')] * 7 + [two_sse[0], S('f64')], None))
    # register boundaries, systematically: k leading scalars, then an aggregate that needs 1 or 2 registers of a class,
    # with and without the hidden struct-return pointer taking an integer register
    mem = [s for s in structs if classify(s) == 'MEMORY']
    one_int_one_sse = [s for s in structs if classify(s) != 'MEMORY' and [k for k, _ in classify(s)] in (['INTEGER', 'SSE'], ['SSE', 'INTEGER'])]
    rets = [None, S('i64')] + (mem[:1] if mem else [])
    for ret in rets:
        for agg in (two_int[:1] + one_int_one_sse[:1]):
            for k in range(3, 7):
                cases.append(([S('i64')] * k + [agg, S('i32')], ret))
        for agg in two_sse[:1] + one_int_one_sse[:1]:
            for k in range(6, 9):
                cases.append(([S('f64')] * k + [agg], ret))
    # an aggregate that does not fit the remaining registers goes to memory WHOLE and gives its registers back: a later
    # aggregate still gets the leftover register (SysV 3.2.3: "if there are no registers available for any eightbyte of an
    # argument, the whole argument is passed on the stack" - the assignments made for it are reverted)
    one_int = [s for s in structs if classify(s) != 'MEMORY' and [k for k, _ in classify(s)] == ['INTEGER']]
    one_sse = [s for s in structs if classify(s) != 'MEMORY' and [k for k, _ in classify(s)] == ['SSE']]
    for ret in rets:
        if two_int and one_int:
            cases.append(([S('i64')] * 5 + [two_int[0], one_int[0]], ret))
            cases.append(([S('i64')] * 5 + [two_int[0], one_int[0], two_int[0]], ret))
        if two_sse and one_sse:
            cases.append(([S('f64')] * 7 + [two_sse[0], one_sse[0]], ret))
        if one_int_one_sse and one_sse:
            cases.append(([S('i64')] * 6 + [one_int_one_sse[0], one_sse[0]], ret))
        if one_int_one_sse and one_int:
            cases.append(([S('f64')] * 8 + [one_int_one_sse[0], one_int[0]], ret))
    return [Case(i, p, r) for i, (p, r) in enumerate(cases)]


def capy_sources(structs, cases):
    lines = [clifcheck.PRELUDE] + [s.decl() for s in structs]
    names = []
    for c in cases:
        ps = ['a%d: %s' % (i, t.src()) for i, t in enumerate(c.params)]
        rs = ' -> ' + c.ret.src() if c.ret is not None else ''
        lines.append('ext%d :: (%s)%s extern;' % (c.idx, ', '.join(ps), rs))
        # caller: aggregates come through pointers so that their bytes are symbolic memory
        cps = []; args = []
        for i, t in enumerate(c.params):
            if t.kind == 'struct':
                cps.append('p%d: ^%s' % (i, t.src())); args.append('p%d^' % i)
            else:
                cps.append('x%d: %s' % (i, t.src())); args.append('x%d' % i)
        if c.ret is None:
            body = 'ext%d(%s);' % (c.idx, ', '.join(args))
        else:
            cps.append('out: ^mut %s' % c.ret.src())
            body = 'out^ = ext%d(%s);' % (c.idx, ', '.join(args))
        lines.append('call%d :: (%s) { %s }' % (c.idx, ', '.join(cps), body))
        # callee with the same signature: stores every parameter through an out pointer
        outs = ', '.join('o%d: ^mut %s' % (i, t.src()) for i, t in enumerate(c.params))
        stores = ' '.join('o%d^ = a%d;' % (i, i) for i in range(len(c.params)))
        if c.ret is not None:
            lines.append('cb%d :: (%s%s%sr: ^%s)%s { %s r^ }' % (c.idx, ', '.join(ps), ', ' if ps else '', outs + (', ' if outs else ''), c.ret.src(), rs, stores))
        else:
            lines.append('cb%d :: (%s%s%s) { %s }' % (c.idx, ', '.join(ps), ', ' if ps and outs else '', outs, stores))
        names += ['call%d' % c.idx, 'cb%d' % c.idx]
    refs = 'refs :: () {\n' + '\n'.join('    r%d := %s;' % (i, n) for i, n in enumerate(names)) + '\n}\n'
    return '\n'.join(lines) + '\n', refs


def value_bytes(t):
    return sorted({o + k for o, sz, _ in flat_fields(t) for k in range(sz)})


def sel(mem, addr, i):
    return z3.Select(mem, addr + BV(i, 64)) if not isinstance(addr, int) else z3.Select(mem, BV(addr + i, 64))


def word_bytes(word, nbytes):
    return [z3.Extract(8 * i + 7, 8 * i, word) for i in range(nbytes)]


def check_outgoing(chk, prover, mod, c, src):
    """the extern call made by call<idx>: signature shape and argument words"""
    fn = mod.funcs[mod.by_pretty('call%d' % c.idx)]
    decl = [(ext, sig) for ext, sig, _ in fn.fns.values() if mod.functable.get(ext, ('',))[0] == 'ext%d' % c.idx]
    if not decl:
        raise Inconclusive('call%d does not reference ext%d' % (c.idx, c.idx))
    sig_params, sig_rets, _ = fn.sigs[decl[0][1]]
    shape, ret_shape = expected_abi(c.params, c.ret)
    problems = []
    why = sig_matches(sig_params, shape)
    if why:
        problems.append(('signature', why, None))
    if ret_shape not in (None, 'sret'):
        if len(sig_rets) != len(ret_shape):
            problems.append(('signature', 'result needs %d register word(s) %s, the signature returns %s' % (len(ret_shape), ret_shape, sig_rets), None))
        else:
            for (ty, _), (k, used, off) in zip(sig_rets, ret_shape):
                if (ty in ('f32', 'f64')) != (k == 'sse') or TY_BITS[ty] // 8 < used:
                    problems.append(('signature', 'result eightbyte at %d is %s/%d bytes but returned as %s' % (off, k.upper(), used, ty), None))
    if not problems:
        eng = Engine(mod, max_visits=4)
        st = State()
        args = []; bufs = {}; scal = {}
        for i, t in enumerate(c.params):
            if t.kind == 'struct':
                r = eng.add_region(st, t.size(), 'p%d' % i); bufs[i] = r.lo; args.append(BV(r.lo, 64))
            else:
                bits = 64 if t.kind == 'ptr' else bits_of(t.src())
                v = z3.BitVec('x%d' % i, bits); scal[i] = v; args.append(v)
                if t.kind == 'scalar' and t.name == 'bool':
                    st.pc.append(z3.ULE(v, 1))
        outp = None
        if c.ret is not None:
            r = eng.add_region(st, max(c.ret.size(), 1), 'out'); outp = r.lo; args.append(BV(r.lo, 64))
        init = st.mem
        try:
            paths = eng.run(mod.by_pretty('call%d' % c.idx), args, st)
        except Unsupported as e:
            raise Inconclusive('call%d: %s' % (c.idx, e))
        chk.funcs_encoded.update(eng.funcs_run); chk.solver_s += eng.solver_s
        chk.cov['ir_instructions_executed'] = chk.cov.get('ir_instructions_executed', 0) + eng.steps_total
        for p in paths:
            evs = [e for e in p.events if e[0] == 'ext%d' % c.idx]
            if p.status != 'ret' or len(evs) != 1:
                problems.append(('call', 'the call path ended with %s and %d extern call(s)' % (p.status, len(evs)), None)); continue
            ev = evs[0]
            goals = []
            for (sh, word) in zip(shape, ev[1]):
                if sh[0] == 'sret':
                    continue
                idx = sh[2]; t = c.params[idx]
                if sh[0] == 'mem':
                    for b in value_bytes(t):
                        goals.append(('parameter %d byte %d in the by-value stack copy' % (idx, b), sel(ev.mem, word, b) == z3.Select(init, BV(bufs[idx] + b, 64))))
                elif t.kind == 'struct':
                    vb = set(value_bytes(t))
                    for k, byte in enumerate(word_bytes(word, word.size() // 8)):
                        if sh[3] + k in vb:
                            goals.append(('parameter %d byte %d in its register word' % (idx, sh[3] + k), byte == z3.Select(init, BV(bufs[idx] + sh[3] + k, 64))))
                else:
                    goals.append(('scalar parameter %d' % idx, word == scal[idx]))
            # result: what the extern returns must land in out^
            if c.ret is not None and c.ret.size() > 0:
                vb = value_bytes(c.ret) if c.ret.kind == 'struct' else list(range(c.ret.size()))
                if ret_shape == 'sret':
                    sretp = ev[1][0]
                    for b in vb:
                        goals.append(('result byte %d copied from the sret buffer' % b, z3.Select(p.mem, BV(outp + b, 64)) == sel(p.mem, sretp, b)))
                elif len(getattr(ev, 'rets', [])) == len(ret_shape):
                    for (k, used, off), word in zip(ret_shape, ev.rets):
                        for j in range(min(used, word.size() // 8)):
                            if off + j in vb:
                                goals.append(('result byte %d taken from its register word' % (off + j), z3.Select(p.mem, BV(outp + off + j, 64)) == z3.Extract(8 * j + 7, 8 * j, word)))
            for label, g in goals:
                r, model = prover.prove(list(p.pc), g)
                if r == 'sat':
                    problems.append(('argument', label + ' does not carry the source byte', model)); break
                if r == 'unknown':
                    chk.inconclusive_note('call%d: no verdict' % c.idx)
    return problems


def act_rets(p, ev):
    return {}


def check_incoming(chk, prover, mod, c):
    """cb<idx>: a Capy function with the same signature, entered the way a C caller enters it"""
    f = mod.funcs[mod.by_pretty('cb%d' % c.idx)]
    nparams = len(c.params)
    extra = [Ptr(t, True) for t in c.params] + ([Ptr(c.ret)] if c.ret is not None else [])
    shape, ret_shape = expected_abi(list(c.params) + extra, c.ret)
    problems = []
    why = sig_matches(f.params, shape)
    if why:
        return [('signature', why, None)]
    eng = Engine(mod, max_visits=4)
    st = State()
    args = []; words = {}; outs = {}; rsrc = None; sretp = None
    for (ty, purpose), sh in zip(f.params, shape):
        if sh[0] == 'sret':
            r = eng.add_region(st, max(c.ret.size(), 1), 'sret'); sretp = r.lo; args.append(BV(r.lo, 64)); continue
        idx = sh[2]
        if idx >= nparams:
            # out pointers and the result source pointer
            t = extra[idx - nparams]
            r = eng.add_region(st, max(t.sub.size(), 1), 'o%d' % idx); args.append(BV(r.lo, 64))
            if idx - nparams < nparams:
                outs[idx - nparams] = r.lo
            else:
                rsrc = r.lo
            continue
        if sh[0] == 'mem':
            n = int(purpose[5:-1])
            r = eng.add_region(st, n, 'sarg%d' % idx); args.append(BV(r.lo, 64)); words.setdefault(idx, []).append(('mem', r.lo))
        else:
            v = z3.BitVec('w%d_%d' % (idx, sh[3]), TY_BITS[ty]); args.append(v); words.setdefault(idx, []).append((sh[3], v))
            t = c.params[idx]
            if t.kind == 'scalar' and t.name == 'bool':
                st.pc.append(z3.ULE(v, 1))
    init = st.mem
    try:
        paths = eng.run(mod.by_pretty('cb%d' % c.idx), args, st)
    except Unsupported as e:
        raise Inconclusive('cb%d: %s' % (c.idx, e))
    chk.funcs_encoded.update(eng.funcs_run); chk.solver_s += eng.solver_s
    chk.cov['ir_instructions_executed'] = chk.cov.get('ir_instructions_executed', 0) + eng.steps_total
    for p in paths:
        if p.status != 'ret':
            problems.append(('callee', 'the callee path ended with %s' % p.status, None)); continue
        goals = []
        for idx, t in enumerate(c.params):
            if t.size() == 0 or idx not in outs:
                continue
            vb = value_bytes(t) if t.kind == 'struct' else list(range(t.size()))
            for b in vb:
                got = z3.Select(p.mem, BV(outs[idx] + b, 64))
                want = None
                for w in words.get(idx, []):
                    if w[0] == 'mem':
                        want = z3.Select(init, BV(w[1] + b, 64))
                    elif w[0] <= b < w[0] + w[1].size() // 8:
                        want = z3.Extract(8 * (b - w[0]) + 7, 8 * (b - w[0]), w[1])
                if want is None:
                    problems.append(('signature', 'no incoming word covers byte %d of parameter %d' % (b, idx), None)); continue
                goals.append(('parameter %d byte %d reassembled from the incoming words' % (idx, b), got == want))
        if c.ret is not None and c.ret.size() > 0:
            vb = value_bytes(c.ret) if c.ret.kind == 'struct' else list(range(c.ret.size()))
            if ret_shape == 'sret':
                for b in vb:
                    goals.append(('result byte %d written through the sret pointer' % b, z3.Select(p.mem, BV(sretp + b, 64)) == z3.Select(init, BV(rsrc + b, 64))))
                if p.ret:
                    goals.append(('the sret pointer is returned', p.ret[0] == BV(sretp, 64)))
            else:
                if len(p.ret) != len(ret_shape):
                    problems.append(('signature', 'result needs %d word(s), the callee returns %d' % (len(ret_shape), len(p.ret)), None))
                else:
                    for (k, used, off), word in zip(ret_shape, p.ret):
                        for j in range(min(used, word.size() // 8)):
                            if off + j in vb:
                                goals.append(('result byte %d in its register word' % (off + j), z3.Extract(8 * j + 7, 8 * j, word) == z3.Select(init, BV(rsrc + off + j, 64))))
        for label, g in goals:
            r, model = prover.prove(list(p.pc), g)
            if r == 'sat':
                problems.append(('callee', label + ' is wrong', model)); break
            if r == 'unknown':
                chk.inconclusive_note('cb%d: no verdict' % c.idx)
    return problems


# ---- gcc replay (outgoing direction): a C callee that checks what it receives ---------------------------------------

C_TYPES = {'u8': 'unsigned char', 'u16': 'unsigned short', 'i16': 'short', 'i32': 'int', 'i64': 'long long', 'u64': 'unsigned long long', 'f32': 'float', 'f64': 'double', 'bool': 'unsigned char'}


def c_type(t):
    if t.kind == 'scalar':
        return C_TYPES[t.name]
    if t.kind == 'ptr':
        return 'void*'
    return 'struct ' + t.name


def c_struct_decl(st):
    parts = []
    for n, t in st.fields:
        if t.kind == 'array':
            parts.append('%s %s[%d];' % (c_type(t.sub), n, t.n))
        else:
            parts.append('%s %s;' % (c_type(t), n))
    return 'struct %s { %s };' % (st.name, ' '.join(parts))


def gcc_replay(chk, c, structs, src):
    """Capy main fills each aggregate with distinct bytes and calls ext; the gcc-compiled ext prints every byte it got"""
    wd = common.workdir('C19')
    body = []
    args = []
    for i, t in enumerate(c.params):
        if t.kind == 'struct':
            words = (t.size() + 7) // 8
            vals = ', '.join(str(int.from_bytes(bytes(((17 * i + 3 * b + 1) & 0xff) for b in range(8 * w, 8 * w + 8)), 'little')) for w in range(words))
            body.append('    w%d : [%d]u64 = u64.[%s];' % (i, words, vals))
            body.append('    s%d := (^%s).(rawptr.(^w%d))^;' % (i, t.src(), i))
            args.append('s%d' % i)
        elif t.kind == 'ptr':
            body.append('    q%d : i32 = %d;' % (i, i)); args.append('^q%d' % i)
        elif t.is_float():
            body.append('    x%d : %s = %d.5;' % (i, t.src(), i + 1)); args.append('x%d' % i)
        elif t.name == 'bool':
            args.append('true')
        else:
            body.append('    x%d : %s = %d;' % (i, t.src(), (i + 1) * 7)); args.append('x%d' % i)
    call = 'ext%d(%s)' % (c.idx, ', '.join(args))
    body.append('    r := %s;' % call if c.ret is not None else '    %s;' % call)
    main = 'main :: () -> i32 {\n' + '\n'.join(body) + '\n    0\n}\n'
    capy_src = '\n'.join(l for l in src.splitlines() if not l.startswith(('call', 'cb', 'refs'))) + '\n' + main
    cparts = ['#include <stdio.h>', '#include <string.h>'] + [c_struct_decl(s) for s in structs]
    cps = ', '.join('%s a%d' % (c_type(t), i) for i, t in enumerate(c.params)) or 'void'
    cb = []
    for i, t in enumerate(c.params):
        if t.kind == 'struct':
            cb.append('  { unsigned char b[sizeof a%d]; memcpy(b, &a%d, sizeof a%d); printf("p%d"); for (unsigned k = 0; k < sizeof a%d; k++) printf(" %%02x", b[k]); printf("\\n"); }' % (i, i, i, i, i))
        elif t.kind == 'ptr':
            cb.append('  printf("p%d ptr %%d\\n", *(int*)a%d);' % (i, i))
        elif t.is_float():
            cb.append('  printf("p%d %%g\\n", (double)a%d);' % (i, i))
        else:
            cb.append('  printf("p%d %%lld\\n", (long long)a%d);' % (i, i))
    rt = c_type(c.ret) if c.ret is not None else 'void'
    retstmt = ''
    if c.ret is not None:
        retstmt = '  %s r; memset(&r, 0x5a, sizeof r); return r;' % rt
    cparts.append('%s ext%d(%s) {\n%s\n%s\n}' % (rt, c.idx, cps, '\n'.join(cb), retstmt))
    open(os.path.join(wd, 'abi_replay.capy'), 'w').write(capy_src)
    open(os.path.join(wd, 'abi_replay.c'), 'w').write('\n'.join(cparts) + '\n')
    p = subprocess.run([common.CAPY, 'build', 'abi_replay.capy', '--mod-dir', common.REPO, '--no-exec', '--color', 'never'], cwd=wd, capture_output=True, text=True)
    if p.returncode != 0:
        return None, 'capy build failed: ' + (p.stdout + p.stderr)[-400:]
    q = subprocess.run(['gcc', 'out/abi_replay.o', 'abi_replay.c', '-o', 'abi_replay'], cwd=wd, capture_output=True, text=True)
    if q.returncode != 0:
        return None, 'gcc failed: ' + q.stderr[-400:]
    r = subprocess.run(['./abi_replay'], cwd=wd, capture_output=True, text=True, timeout=20)
    expected = []
    for i, t in enumerate(c.params):
        if t.kind == 'struct':
            vb = set(value_bytes(t))
            expected.append(('p%d' % i, {b: (17 * i + 3 * b + 1) & 0xff for b in vb}))
        elif t.kind == 'ptr':
            expected.append(('p%d' % i, 'ptr %d' % i))
        elif t.is_float():
            expected.append(('p%d' % i, '%g' % (i + 1.5)))
        elif t.name == 'bool':
            expected.append(('p%d' % i, '1'))
        else:
            expected.append(('p%d' % i, str((i + 1) * 7)))
    got = {l.split()[0]: l.split()[1:] for l in r.stdout.splitlines() if l.startswith('p')}
    bad = []
    for name, exp in expected:
        g = got.get(name)
        if g is None:
            bad.append(name + ' missing'); continue
        if isinstance(exp, dict):
            for b, v in exp.items():
                if b >= len(g) or int(g[b], 16) != v:
                    bad.append('%s byte %d' % (name, b)); break
        elif ' '.join(g) != exp:
            bad.append('%s got %s want %s' % (name, ' '.join(g), exp))
    return bad, {'capy': capy_src, 'c': '\n'.join(cparts), 'stdout': r.stdout, 'rc': r.returncode}


def run(chk, tier, seed):
    common.build_capy()
    rnd = random.Random(seed)
    structs = [Struct('K%d' % i, f) for i, f in enumerate(CURATED)] + [gen_struct(rnd, i) for i in range(24 if tier == 'quick' else 150)]
    cases = gen_cases(rnd, structs, 60 if tier == 'quick' else 1600)
    src, refs = capy_sources(structs, cases)
    mod, out = clifcheck.compile_module('C19', 'abi', src + refs + 'main :: () { refs(); }\n')
    if mod is None:
        raise Inconclusive('the C19 template was rejected by the compiler:\n' + out[-1500:])
    chk.opcodes.update(mod.opcodes)
    prover = Prover(chk)
    bad = 0
    for c in cases:
        probs = check_outgoing(chk, prover, mod, c, src) + [('in:' + k, w, m) for k, w, m in check_incoming(chk, prover, mod, c)]
        shape, ret_shape = expected_abi(c.params, c.ret)
        chk.sample({'signature': c.sigtext(), 'classifier': [list(s) for s in shape], 'result': ret_shape, 'verdict': 'holds' if not probs else probs[0][1]}, limit=8)
        if not probs:
            continue
        bad += 1
        kind, why, model = probs[0]
        gbad, info = gcc_replay(chk, c, structs, src)
        what = 'signature %s: %s' % (c.sigtext(), why)
        key = {'kind': 'c-abi', 'direction': 'in' if kind.startswith('in:') else 'out', 'what': kind.replace('in:', '')}
        if gbad is None:
            chk.inconclusive_note('gcc replay could not run for %s: %s' % (c.sigtext(), info)); continue
        if not gbad and not kind.startswith('in:'):
            chk.inconclusive_note('model did not reproduce against a gcc-compiled callee: ' + what); continue
        payload = {'property': 'C19', 'kind': 'compile', 'what': what + ('; gcc-compiled callee sees wrong ' + ', '.join(gbad) if gbad else ''), 'key': key,
                   'source': info['capy'], 'c_source': info['c'], 'observed_stdout': info['stdout'],
                   'how': 'capy build --no-exec the source, gcc out/<name>.o the C file, run: the C callee prints the bytes it received'}
        path = common.write_replay('C19', 'abi_%d' % c.idx, payload)
        chk.report(key, payload['what'], path)
    # one gcc differential on the unchanged tree as validation of the whole chain (counts as traces_validated)
    validated = 0
    for c in cases[:6]:
        gbad, info = gcc_replay(chk, c, structs, src)
        if gbad is None:
            chk.inconclusive_note('gcc validation could not run: %s' % info); break
        if gbad:
            chk.inconclusive_note('gcc-compiled callee disagrees on %s (%s) although the solver found no problem: the classifier or the engine is wrong' % (c.sigtext(), gbad)); break
        validated += 1
    chk.cov.update({'programs': 2 * len(cases), 'disagreements_checked': bad, 'traces_validated_against_impl': validated,
                    'explanation': 'programs = (signature, direction) pairs; per pair the lowered signature is compared with an independent System V classifier and every value byte is proved to travel in its eightbyte'})
    chk.bounds.update({'parameters': '0..8', 'struct_fields': '1..5 from %s' % [t.src() for t in FIELD_POOL], 'struct_size': '1..64 bytes', 'structs': len(structs), 'signatures': len(cases),
                       'outside_claim': ['varargs', 'other ABIs (Windows x64, aarch64)', 'Cranelift\'s own placement of scalar words in registers/stack (trusted)', 'x87/long double, vectors']})
    chk.assumptions.extend(['classifier transcribed from the System V psABI (section 3.2.3)', 'Cranelift lowers a scalar-typed signature as System V prescribes', 'Cranelift opcode semantics as documented'])


def replay(path):
    import json
    payload = json.load(open(path))
    if 'c_source' not in payload:
        return replaylib.run_replay(path)
    common.build_capy()
    wd = common.workdir('C19')
    open(os.path.join(wd, 'abi_replay.capy'), 'w').write(payload['source'])
    open(os.path.join(wd, 'abi_replay.c'), 'w').write(payload['c_source'])
    p = subprocess.run([common.CAPY, 'build', 'abi_replay.capy', '--mod-dir', common.REPO, '--no-exec', '--color', 'never'], cwd=wd, capture_output=True, text=True)
    q = subprocess.run(['gcc', 'out/abi_replay.o', 'abi_replay.c', '-o', 'abi_replay'], cwd=wd, capture_output=True, text=True)
    r = subprocess.run(['./abi_replay'], cwd=wd, capture_output=True, text=True, timeout=20)
    print(r.stdout)
    same = r.stdout == payload.get('observed_stdout')
    print('REPRODUCED' if same else 'NOT REPRODUCED (output differs from the recorded violating output)')
    return 1 if same else 0
