"""C22 — lexing is total and lossless, and each token's kind agrees with its text.

Engine A (DESIGN.md section 5, C22): the real `lexer::lex` (logos automaton, lex_char / lex_string / lex_comment, the
LexerTokenKind -> TokenKind transmute) compiled to LLVM IR is executed on texts of symbolic bytes. The harness
(llharness/src/lib.rs harness_lex) asserts: no panic; tokens tile the input contiguously from 0 to len on
character boundaries; every fixed-spelling kind (table generated from tokenizer.txt) has exactly
that text; Ident/Int/Float/Hex/Bin/Whitespace/... texts match reference predicates written from the regexes;
quotes, escapes and contents follow the string/char shape. Every path must return 0.
"""
import random

from lib import common, llcheck, strcheck
from lib.llcheck import Job, explore
from lib.strcheck import Part, ALPHABET24, ascii_parts, unicode_parts, build_for, judge_zero

LEVEL = 'model_checking'
ENTRY = '@harness_lex'


def native_args(text):
    return [('bytes', list(text)), ('int', len(text), 'c_size_t')]


def report(chk, so, violations, entry=ENTRY, prop='C22', extra_native=()):
    for v in violations[:10]:
        text = bytes(v['inputs']['text'])
        args = native_args(text) + list(extra_native)
        stepbound = v.get('code') == 'stepbound'
        r = llcheck.native_call(so, entry, args, ret='c_uint32', timeout=20 if stepbound else 60)
        what = '%s(%r): %s; native call: %r' % (entry, text, v['what'], r)
        if r[0] == 'ret' and r[1] == 0:
            chk.inconclusive_note(('the step bound is too small for this input (it finishes natively): ' if stepbound else 'model did not reproduce natively: ') + what); continue
        if stepbound and r[0] == 'ret':
            continue        # finishes natively with another verdict: that verdict is found on its own path
        if stepbound:
            what = '%s(%r) does not terminate: %s; the native call %s' % (entry, text, v['what'], 'was still running after %d s' % r[1] if r[0] == 'timeout' else 'died (%r) — memory limit of 8 GB' % (r[1],))
        key = {'kind': 'lex', 'code': str(v['code'])}
        path = llcheck.make_harness_replay(prop, 'text_%d' % len(chk.violations), 'llharness', entry, args, what, key, ret='c_uint32')
        chk.report(key, what, path)


def run(chk, tier, seed):
    ll, so = llcheck.build_harness('llharness')
    mod = llcheck.load_module(ll)
    rnd = random.Random(seed)
    cases = strcheck.random_texts(rnd, 30, 8) + [b'"a\\n"', b"'x'", b'// c\n1', b'0x1F 0b10 1_0e3 .5', b'if iff true']
    llcheck.selftest(chk, mod, so, ENTRY, strcheck.concrete_state, native_args, cases, ret='c_uint32', ret_bits=32)
    job = Job(ENTRY, build_for(()), judge_zero)
    parts = []
    if tier == 'quick':
        for n in (0, 1, 2):
            parts += ascii_parts(n)
        parts += ascii_parts(3, ALPHABET24, chunks=24)
        parts += unicode_parts(2, ALPHABET24)
        bounds = ('all ASCII strings of length <= 2; all strings of length 3 over the 24-symbol alphabet %r; all strings of <= 2 scalar values drawn from '
                  'that alphabet, U+00A0, U+00E9, U+20AC, U+1F600 with at least one non-ASCII' % ALPHABET24.decode())
    else:
        for n in (0, 1, 2, 3):
            parts += ascii_parts(n, chunks=64 if n == 3 else 16)
        parts += ascii_parts(4, ALPHABET24, chunks=24)
        parts += unicode_parts(2)
        bounds = ('all ASCII strings of length <= 3; all strings of length 4 over the 24-symbol alphabet %r; all strings of <= 2 scalar values '
                  'drawn from ASCII, U+00A0, U+00E9, U+20AC, U+1F600' % ALPHABET24.decode())
    # a leading byte-order mark (U+FEFF) followed by up to two symbolic symbols, and one symbol before it
    BOM = b'\xef\xbb\xbf'
    parts += [Part([BOM], ALPHABET24), Part([BOM, None], ALPHABET24), Part([None, BOM], ALPHABET24), Part([BOM, None, None], ALPHABET24)]
    bounds += '; U+FEFF alone, before one or two symbols of that alphabet, and after one'
    tot = explore(chk, mod, job, parts, nproc=16)
    report(chk, so, tot['violations'])
    if tier == 'thorough':
        # the dev-profile module additionally executes the debug_assert_eq!(format!(..)) of the transmute
        try:
            ll2, so2 = llcheck.build_harness('llharness', dev=True)
            mod2 = llcheck.load_module(ll2)
            parts2 = []
            for n in (1, 2):
                parts2 += ascii_parts(n)
            tot2 = explore(chk, mod2, job, parts2, nproc=16)
            report(chk, so2, tot2['violations'])
            chk.cov['dev_profile_paths'] = tot2['paths']
        except common.Inconclusive as e:
            chk.inconclusive_note('dev-profile module: %s' % e)
    chk.cov['exhaustive'] = True
    chk.cov['explanation'] = 'states = finished paths of harness_lex (real lexer + assertions) over symbolic text; a path is judged by a z3 query "can the returned code be non-zero"'
    chk.bounds.update({'inputs': bounds, 'outside_claim': ['inputs longer than the bound', 'maximal-munch optimality']})
    chk.assumptions.extend(['rustc 1.88 lowers the crates to this LLVM IR (opt-level 1, fat LTO); llsym transcribes LLVM semantics (validated against native runs each run)',
                            'uninitialised memory reads as zero in the executor', 'kind/text reference predicates in llharness/src/lib.rs are transcribed from tokenizer.txt'])


def replay(path):
    from lib import replay as replaylib
    return replaylib.run_replay(path)
