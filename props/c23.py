"""C23 — parsing is total, terminating and lossless (source file and REPL line).

Engine A (DESIGN.md section 5, C23): the real lexer and the real parser (grammar, Parser::parse with its Option<Event> transmute,
Sink::finish, the eventree builder) compiled to LLVM IR are executed on texts of symbolic bytes. The parser's
precondition is "tokens produced by lex", so the harness composes lex and parse. Asserted on every path: no panic
(DropBomb, Sink asserts, index/slice panics, the transmute assertion), root range = 0..len, tree text = input,
every SyntaxError location inside the input. A path that exceeds the step bound is reported as a
non-termination candidate (inconclusive). "Time roughly linear" is a complexity claim and outside this check.
"""
import random

from lib import common, llcheck, strcheck
from lib.llcheck import Job, explore
from lib.strcheck import ALPHABET_PARSE, ascii_parts, build_for, judge_zero
from props.c22 import report, native_args

LEVEL = 'model_checking'
ENTRY = '@harness_lexparse'


def run(chk, tier, seed):
    ll, so = llcheck.build_harness('llharness')
    mod = llcheck.load_module(ll)
    rnd = random.Random(seed)
    cases = strcheck.random_texts(rnd, 16, 10) + [b'x :: 5;', b'f :: (a: i32) -> i32 { a + 1 }', b'x :: "a\\n', b'{ ( [', b'a.b.(c)^ ;']
    for repl in (0, 1):
        llcheck.selftest(chk, mod, so, ENTRY, lambda t, r=repl: strcheck.concrete_state(t, [r]),
                         lambda t, r=repl: native_args(t) + [('int', r, 'c_uint32')], cases, ret='c_uint32', ret_bits=32)
    step_bound = 2_000_000
    bounds = []
    for repl in (0, 1):
        job = Job(ENTRY, build_for([repl]), judge_zero, max_steps=step_bound)
        parts = []
        if tier == 'quick':
            for n in ((0, 1, 2) if repl == 0 else (0, 1)):
                parts += ascii_parts(n)
            if repl == 0:
                parts += ascii_parts(3, ALPHABET_PARSE, chunks=21)
        else:
            for n in (0, 1, 2):
                parts += ascii_parts(n)
            parts += ascii_parts(3, None if repl == 0 else ALPHABET_PARSE, chunks=64)
            if repl == 0:
                parts += ascii_parts(4, ALPHABET_PARSE, chunks=21)
        # texts with non-ASCII characters between tokens (U+00A0 is its own token kind; the others are lexer errors)
        from lib.strcheck import unicode_parts, Part, MULTIBYTE
        parts += unicode_parts(2, ALPHABET_PARSE, extra=())
        if repl == 0 or tier == 'thorough':
            for pos in range(3):
                for mb in (MULTIBYTE[:1] if tier == 'quick' else MULTIBYTE):
                    layout = [None, None, None]; layout[pos] = mb
                    parts.append(Part(layout, ALPHABET_PARSE))
        # token-level inputs (the property quantifies over token sequences): k dictionary words separated by whitespace
        from lib.strcheck import word_parts, WORDS
        if tier == 'quick':
            parts += word_parts(3, extra=()) if repl == 1 else word_parts(2, prefix=b'x :: ')
        else:
            parts += word_parts(4, extra=()) if repl == 1 else (word_parts(3) + word_parts(3, prefix=b'x :: '))
        # contexts x phrases: the enclosing construct decides which tokens an inner item loop refuses to consume
        if repl == 0:
            parts += strcheck.context_parts(2, strcheck.CONTEXTS[:5]) if tier == 'quick' else (strcheck.context_parts(2) + strcheck.context_parts(3, strcheck.CONTEXTS[:3]))
        tot = explore(chk, mod, job, parts, nproc=16)
        report(chk, so, tot['violations'], entry=ENTRY, prop='C23', extra_native=[('int', repl, 'c_uint32')])
    if tier == 'quick':
        btxt = 'source file: all ASCII strings of length <= 2 and all strings of length 3 over %r; REPL line: all ASCII strings of length <= 1; both: all texts of <= 2 scalar values from that alphabet + U+00A0/U+00E9/U+20AC/U+1F600 with at least one non-ASCII; source file: U+00A0 at each position of a 3-scalar text' % ALPHABET_PARSE.decode()
    else:
        btxt = 'source file: all ASCII strings of length <= 3 and all strings of length 4 over %r; REPL line: all ASCII of length <= 2 and length 3 over the same alphabet' % ALPHABET_PARSE.decode()
    chk.cov['exhaustive'] = True
    chk.cov['explanation'] = 'states = finished paths of harness_lexparse (real lexer + parser + tree builder + assertions) over symbolic text'
    kq = (3, 2) if tier == 'quick' else (4, 3)
    btxt += '; token level: REPL line of %d words and source file `x :: ` + %d words from the dictionary %s, each followed by whitespace' % (kq[0], kq[1], [w.decode() for w in strcheck.WORDS])
    btxt += '; source file: each context of %s followed by %d phrases from %s' % ([c.decode() for c in (strcheck.CONTEXTS[:5] if tier == 'quick' else strcheck.CONTEXTS)], 2, [w.decode() for w in strcheck.PHRASES])
    if tier != 'quick':
        btxt += '; the first 3 contexts also with 3 phrases'
    chk.bounds.update({'inputs': btxt, 'step_bound_per_path': step_bound,
                       'outside_claim': ['"time roughly linear" (complexity)', 'nesting depth 200', 'inputs longer than the bound', 'token sequences the lexer cannot produce']})
    chk.assumptions.extend(['rustc 1.88 lowers the crates to this LLVM IR (opt-level 1, fat LTO); llsym transcribes LLVM semantics (validated against native runs each run)',
                            'uninitialised memory reads as zero in the executor'])


def replay(path):
    from lib import replay as replaylib
    return replaylib.run_replay(path)
