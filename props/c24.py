"""C24 — expressions parse by the documented precedence and associativity.

Engine A (DESIGN.md section 5, C24): the real parser, compiled to LLVM IR, is run on the token skeleton
`x :: o0 op1 o1 op2 o2 [op3 o3] ;` where every `op_i` is a SYMBOLIC choice among the 18 binary operators and the
operands carry fixed prefix/postfix decorations (- + ! ~ ^ ^mut, call, index, field, .try, deref, cast). The
harness (harness_prec) asserts: no syntax error, lossless tree, and the set of BinaryExpr node spans equals the
spans of an independent operator-precedence (shunting-yard) reading of the documented table
`||` < `&&` < comparisons < `+ - | ~` < `* / % & << >>`, all left-associative, prefix/postfix tighter than binary.
The "printed program parses back" sentence is outside this check (the repository has no printer).
"""
import itertools
import random
import z3

from lib import common, llcheck
from lib.llcheck import BUF, Job, explore, model_of, eval_inputs
from lib.strcheck import judge_zero
from engine.llsym import State

LEVEL = 'model_checking'
ENTRY = '@harness_prec'
NSHAPES = 14
SHAPE_NAMES = ['a', '-a', '!a', '~a', '+a', '^a', '^mut a', 'a(b)', 'a[0]', 'a.b', 'a.try', 'a^', 'T.(a)', '-a.b', '?', '?']
SHAPE_NAMES += [pre + post for pre in '-!~+' for post in ['a(b)', 'a[0]', 'a.b', 'a.try', 'a^', 'T.(a)', 'T.{}', 'T.[a]']]
SHAPE_NAMES += ['(a)', '((a))', '(a + b)', '((a + b))']
OPS = ['||', '&&', '<', '<=', '>', '>=', '==', '!=', '+', '-', '|', '~', '*', '/', '%', '&', '<<', '>>']


def build(part):
    nops, shapes = part[:2]
    cond = 0x100 if len(part) > 2 and part[2] else 0
    st = State()
    ops = [z3.BitVec('op%d' % i, 8) for i in range(nops)]
    for i, o in enumerate(ops):
        st.mem[BUF + i] = o
        st.pc.append(z3.ULT(o, 18))
    sb = BUF + 64
    for i, s in enumerate(shapes):
        st.mem[sb + i] = s
    return st, [BUF, nops | cond, sb], {'ops': ops, 'shapes': list(shapes), 'cond': cond}


def native_args(ops, shapes, cond=0):
    return [('bytes', list(ops) or [0]), ('int', len(ops) | cond, 'c_size_t'), ('bytes', list(shapes))]


def concrete(case):
    ops, shapes = case
    st = State()
    for i, o in enumerate(ops):
        st.mem[BUF + i] = o
    for i, s in enumerate(shapes):
        st.mem[BUF + 64 + i] = s
    return st, [BUF, len(ops), BUF + 64]


def run(chk, tier, seed):
    ll, so = llcheck.build_harness('llharness')
    mod = llcheck.load_module(ll)
    rnd = random.Random(seed)
    cases = []
    for _ in range(20):
        n = rnd.choice([1, 2, 3])
        cases.append(([rnd.randrange(18) for _ in range(n)], [rnd.choice(list(range(NSHAPES)) + list(range(16, 48))) for _ in range(n + 1)]))
    llcheck.selftest(chk, mod, so, ENTRY, concrete, lambda c: native_args(*c), cases, ret='c_uint32', ret_bits=32)
    parts = []
    # plain operands, 1..3 operators (all 18^k combinations are covered symbolically)
    for n in (1, 2, 3):
        parts.append((n, tuple([0] * (n + 1))))
    # every decoration at every operand position of a two-operator expression
    for pos in range(3):
        for sh in range(1, NSHAPES):
            shapes = [0, 0, 0]; shapes[pos] = sh
            parts.append((2, tuple(shapes)))
    if tier == 'thorough':
        parts.append((4, (0, 0, 0, 0, 0)))
        for a, b in itertools.product(range(1, NSHAPES), repeat=2):
            parts.append((2, (a, b, 0))); parts.append((2, (0, a, b)))
        for _ in range(40):
            parts.append((3, tuple(rnd.randrange(NSHAPES) for _ in range(4))))
    # prefix operator x postfix operator on one operand (shapes 16..47), at every operand position
    for sh in range(16, 48):
        for pos in range(3 if tier == 'thorough' else 2):
            shapes = [0, 0, 0]; shapes[pos] = sh
            parts.append((2, tuple(shapes)))
        parts.append((1, (sh, sh)))
    # redundant parentheses (shapes 48..51), as a whole expression and as operands, also as the condition of an `if`
    # (where the token after the closing parenthesis is `{`)
    for cond in (False, True):
        for sh in range(48, 52):
            parts.append((0, (sh,), cond))
            for pos in range(2):
                shapes = [0, 0]; shapes[pos] = sh
                parts.append((1, tuple(shapes), cond))
            if tier == 'thorough':
                for pos in range(3):
                    shapes = [0, 0, 0]; shapes[pos] = sh
                    parts.append((2, tuple(shapes), cond))
        for sh in (0, 1, 7, 12):
            parts.append((1, (sh, 0), True))
    parts = sorted(set(parts), key=lambda p: (p[0], p[1], len(p) > 2 and p[2]))
    job = Job(ENTRY, build, judge_zero)
    tot = explore(chk, mod, job, parts, nproc=16)
    for v in tot['violations'][:10]:
        ops = v['inputs']['ops']; shapes = v['inputs']['shapes']
        args = native_args(ops, shapes, v['inputs'].get('cond', 0))
        r = llcheck.native_call(so, ENTRY, args, ret='c_uint32')
        expr = ' '.join(SHAPE_NAMES[shapes[0]] if i == 0 else OPS[ops[i - 1]] + ' ' + SHAPE_NAMES[shapes[i]] for i in range(len(shapes)))
        if v['inputs'].get('cond'):
            expr = 'if ' + expr + ' { a } else { a }'
        what = 'x :: %s ; — %s (16 = syntax error, 17/18 = BinaryExpr spans differ from the documented table); native call: %r' % (expr, v['what'], r)
        if r[0] == 'ret' and r[1] == 0:
            chk.inconclusive_note('model did not reproduce natively: ' + what); continue
        key = {'kind': 'precedence', 'code': str(v['code']), 'shapes': [SHAPE_NAMES[s] for s in shapes]}
        path = llcheck.make_harness_replay('C24', 'expr_%d' % len(chk.violations), 'llharness', ENTRY, args, what, key, ret='c_uint32')
        chk.report(key, what, path)
    chk.cov['exhaustive'] = True
    chk.cov['explanation'] = 'states = finished paths of harness_prec; the operator choices are symbolic, so one exploration covers all 18^k operator combinations of a skeleton'
    chk.bounds.update({'skeletons': len(parts), 'operators_per_expression': '1..3 (4 in thorough)', 'operator_choices': 'all 18 binary operators at every position (symbolic)',
                       'decorations': SHAPE_NAMES, 'outside_claim': ['printer round-trip (no printer in the repository)', 'expression depth > 4 operators', 'parenthesised sub-expressions other than the four redundant-parenthesis operand shapes']})
    chk.assumptions.extend(['the level table in llharness/src/lib.rs (BINOPS) is transcribed from the property statement', 'tokens are built directly (every one is lexer-producible)',
                            'rustc 1.88 LLVM IR at opt-level 1; llsym validated against native runs'])


def replay(path):
    from lib import replay as replaylib
    return replaylib.run_replay(path)
