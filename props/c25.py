"""C25 — reported line and column are exactly right (LineIndex::new + line_col).

Engine A (DESIGN.md section 5, C25): the real `line_index` crate, compiled to LLVM IR by the repository's rustc, is executed
symbolically on a text of symbolic bytes and a symbolic offset. For every path z3 decides that the returned
(line, column) equals the specification — line = number of '\\n' strictly before the offset, column = offset
minus the index just after the last such '\\n' (or 0) — for every offset <= len. Second part: the real
Diagnostic::display (llharness_diag) renders a diagnostic with a symbolic range over a symbolic text; its
`--> at file:line:col` header must be the 1-based position where the range starts.
"""
import random
import z3

from lib import common, llcheck
from lib.common import Inconclusive
from lib.llcheck import BUF, Job, explore, model_of, eval_inputs
from engine.llsym import State, is_sym

LEVEL = 'model_checking'
ENTRY = '@harness_linecol'


def spec(bs, off):
    """(line, col) as 32-bit z3 terms"""
    line = z3.BitVecVal(0, 32); start = z3.BitVecVal(0, 32)
    for i, b in enumerate(bs):
        hit = z3.And(z3.ULT(z3.BitVecVal(i, 32), off), b == 10)
        line = line + z3.If(hit, z3.BitVecVal(1, 32), z3.BitVecVal(0, 32))
        start = z3.If(hit, z3.BitVecVal(i + 1, 32), start)
    return line, off - start


def utf8_ok(bs, ascii_only):
    cs = []
    for i, b in enumerate(bs):
        alts = [z3.ULT(b, 128)]
        if not ascii_only:
            if i + 1 < len(bs):
                alts.append(z3.And(b == 0xC3, bs[i + 1] == 0xA9))
            if i > 0:
                alts.append(z3.And(bs[i - 1] == 0xC3, b == 0xA9))
        cs.append(z3.Or(*alts))
    return cs


def make_build(ascii_only):
    def build(n):
        st = State()
        bs = [z3.BitVec('b%d' % i, 8) for i in range(n)]
        off = z3.BitVec('off', 32)
        for i, b in enumerate(bs):
            st.mem[BUF + i] = b
        st.pc += utf8_ok(bs, ascii_only)
        st.pc.append(z3.ULE(off, n))
        return st, [BUF, n, off], {'text': bs, 'offset': off, 'len': n}
    return build


def judge(ex, p, inputs):
    kind = p.end[0]
    bs, off = inputs['text'], inputs['offset']
    if kind != 'ret':
        m = model_of(ex, p)
        if m is None:
            return None
        return {'what': 'line_col %s' % kind, 'detail': str(p.end[1])[:200], 'inputs': eval_inputs(m, inputs)}
    r = p.end[1]
    r = r if is_sym(r) else z3.BitVecVal(r, 64)
    line, col = spec(bs, off)
    want = z3.Concat(line, col)
    m = model_of(ex, p, [r != want])
    if m is None:
        return None
    got = m.eval(r, model_completion=True).as_long(); exp = m.eval(want, model_completion=True).as_long()
    return {'what': 'line_col returned (line %d, col %d), specification says (line %d, col %d)' % (got >> 32, got & 0xffffffff, exp >> 32, exp & 0xffffffff),
            'inputs': eval_inputs(m, inputs)}


def native_args(case):
    text, off = case
    return [('bytes', list(text)), ('int', len(text), 'c_size_t'), ('int', off, 'c_uint32')]


def make_concrete(case):
    text, off = case
    st = State()
    for i, b in enumerate(text):
        st.mem[BUF + i] = b
    return st, [BUF, len(text), off]


def header_part(chk, tier, rnd):
    """second sentence of the property: the real Diagnostic::display renders a diagnostic whose range is symbolic over a
    symbolic text; the `--> at file:line:col` header must name the 1-based position where the range starts
    (llharness_diag/src/lib.rs compares it with a direct count). Zero-width ranges are included."""
    from lib.strcheck import judge_zero
    ll, so = llcheck.build_harness('llharness_diag')
    mod = llcheck.load_module(ll)
    entry = '@harness_diag_header'
    alphabet = [ord('a'), 10, 13, 9]

    def nargs(c):
        text, st, en = c
        return [('bytes', list(text)), ('int', len(text), 'c_size_t'), ('int', st, 'c_uint32'), ('int', en, 'c_uint32')]

    def conc(c):
        text, st_, en = c
        st = State()
        for i, b in enumerate(text):
            st.mem[BUF + i] = b
        return st, [BUF, len(text), st_, en]
    cases = []
    for _ in range(10):
        n = rnd.randint(1, 6)
        text = bytes(rnd.choice(b'a\nb\r') for _ in range(n))
        a = rnd.randint(0, n - 1); b = rnd.randint(a + 1, n)
        cases.append((text, a, b))
    llcheck.selftest(chk, mod, so, entry, conc, nargs, cases, ret='c_uint32', ret_bits=32)

    def build(part):
        n, start = part
        st = State()
        bs = [z3.BitVec('b%d' % i, 8) for i in range(n)]
        for i, b in enumerate(bs):
            st.mem[BUF + i] = b
            st.pc.append(z3.Or(*[b == c for c in alphabet]))
        en = z3.BitVec('end', 32)
        st.pc += [z3.UGE(en, start), z3.ULE(en, n)]
        return st, [BUF, n, start, en], {'text': bs, 'start': start, 'end': en}

    def judge(ex, p, inputs):
        v = judge_zero(ex, p, inputs)
        if v is not None and v.get('code') == 0x80000000:
            return None
        return v
    nmax = 3 if tier == 'quick' else 5
    parts = [(n, s) for n in range(1, nmax + 1) for s in range(0, n + 1)]
    tot = explore(chk, mod, Job(entry, build, judge, max_steps=6_000_000), parts, nproc=16)
    seen = set()
    for v in tot['violations']:
        ins = v['inputs']
        text = bytes(ins['text']); a = ins['start']; b = ins['end']
        r = llcheck.native_call(so, entry, nargs((text, a, b)), ret='c_uint32')
        shape = 'zero-width range' if a == b else 'non-empty range'
        at_line_start = a == 0 or text[a - 1:a] == b'\n'
        key = {'kind': 'diagnostic-header', 'range': shape, 'at_line_start': at_line_start, 'outcome': 'panic' if v.get('code') not in (1, 2, 3, 4) else 'wrong-position'}
        sig = tuple(sorted(key.items()))
        if sig in seen:
            continue
        seen.add(sig)
        what = 'Diagnostic::display over %r with range %d..%d: %s; native call %r (1 no header, 2 unparsable, 3 wrong line, 4 wrong column)' % (text, a, b, v['what'], r)
        if r[0] == 'ret' and r[1] == 0:
            chk.inconclusive_note('model did not reproduce natively: ' + what); continue
        path = llcheck.make_harness_replay('C25', 'header_%d' % len(seen), 'llharness_diag', entry, nargs((text, a, b)), what, key, ret='c_uint32')
        chk.report(key, what, path)
    chk.bounds['diagnostic_header'] = 'texts of 1..%d bytes over {a, \\n, \\r, \\t}, every range start..end with start <= end <= len (zero-width included), one validation diagnostic' % nmax


def run(chk, tier, seed):
    ll, so = llcheck.build_harness('llharness')
    mod = llcheck.load_module(ll)
    rnd = random.Random(seed)
    # differential self-test of the executor on this entry point
    cases = []
    for _ in range(24):
        n = rnd.randint(0, 8)
        text = bytes(rnd.choice(b'a\n\r\tb') for _ in range(n))
        cases.append((text, rnd.randint(0, n)))
    llcheck.selftest(chk, mod, so, ENTRY, make_concrete, native_args, cases)
    nmax_utf = 6 if tier == 'quick' else 8
    nmax_ascii = 4 if tier == 'quick' else 7
    total_viol = []
    for ascii_only, nmax in ((False, nmax_utf), (True, nmax_ascii)):
        job = Job(ENTRY, make_build(ascii_only), judge)
        tot = explore(chk, mod, job, list(range(0, nmax + 1)))
        total_viol += tot['violations']
    for v in total_viol[:10]:
        ins = v['inputs']
        args = native_args((bytes(ins['text']), ins['offset']))
        r = llcheck.native_call(so, ENTRY, args)
        text = bytes(ins['text']); off = ins['offset']
        line = text[:off].count(b'\n'); start = (text[:off].rfind(b'\n') + 1)
        want = (line << 32) | (off - start)
        key = {'kind': 'line-col'}
        what = 'LineIndex::line_col(%r, %d): %s (native call returned %r, specification %d:%d)' % (text, off, v['what'], r, line, off - start)
        if r[0] == 'ret' and r[1] == want:
            chk.inconclusive_note('model did not reproduce natively: ' + what); continue
        path = llcheck.make_harness_replay('C25', 'linecol_%d' % len(chk.violations), 'llharness', ENTRY, args, what, key, ok_value=want)
        chk.report(key, what, path)
    header_part(chk, tier, rnd)
    chk.cov['exhaustive'] = True
    chk.cov['explanation'] = 'states = finished paths of the real LineIndex::new+line_col over symbolic text and offset; each path is judged by one z3 query against the specification'
    chk.bounds.update({'text_length': '0..%d bytes over ASCII + "é"; 0..%d all-ASCII' % (nmax_utf, nmax_ascii), 'offset': 'all offsets <= len (symbolic u32)',
                       'outside_claim': ['diagnostic kinds other than the validation warning used by the header harness (the header code is shared)', 'the snippet lines under the header', 'texts longer than the bound', 'offsets > len']})
    chk.assumptions.extend(['rustc 1.88 lowers the crate to this LLVM IR (opt-level 1, fat LTO); llsym transcribes LLVM semantics (validated against native runs)',
                            'uninitialised memory reads as zero in the executor', 'input text is valid UTF-8 (ASCII plus U+00E9)'])


def replay(path):
    from lib import replay as replaylib
    return replaylib.run_replay(path)
