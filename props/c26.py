"""C26 — inference scheduling offers exactly the ready work and detects true cycles.

Engine A (DESIGN.md section 5, C26): the real `topo::TopoSort<u8>` with the real `indexmap` (SipHash keys from a modelled
getrandom) is driven exactly as InferenceCtx::finish drives it: extend with n items, then rounds of peek_all (on Err
peek_all_cyclic); every offered item either completes (remove) or registers dependencies on a SYMBOLIC subset of
the not-yet-completed items. A plain model (pending set + dependency relation) runs beside it in the harness and
every round asserts: peek_all = exactly the pending items without a pending registered dependency; Err(CycleErr) only
when every pending item waits on a pending item, then peek_all_cyclic = all pending; remove never fails; len matches;
the schedule is empty exactly when everything completed. All decisions are symbolic bytes.
"""
import random
import z3

from lib import common, llcheck
from lib.llcheck import BUF, Job, explore
from lib.strcheck import judge_zero
from engine.llsym import State

LEVEL = 'model_checking'
ENTRY = '@harness_topo'


def make_build(n, rounds, first_round_registers=False, observe_last=None):
    def build(first):
        st = State()
        ds = [z3.BitVec('d%d' % i, 8) for i in range(n * rounds)]
        for i in range(64):
            st.mem[BUF + i] = ds[i] if i < len(ds) else 0
        for d in ds:
            st.pc.append(z3.ULT(d, 1 << (n + 1)))
        # in round 1 nothing has a dependency yet, so item i takes decision i; the mask bit that names the item itself is
        # ignored by the protocol (an item does not wait on itself): fixing it to 0 removes equivalent histories only
        for i in range(min(n, len(ds))):
            st.pc.append((ds[i] >> (i + 1)) & 1 == 0)
            if first_round_registers:
                # restricted family: every item registers dependencies in round 1 (histories in which an item completes
                # at once continue as histories of fewer items, which the smaller configurations cover)
                st.pc.append(ds[i] & 1 == 1)
                st.pc.append(ds[i] >> 1 != 0)
        if first is not None:
            st.pc.append(z3.Or(*[ds[0] == v for v in first]))
        # in the restricted family the last round only observes what is offered (unless the configuration says 'full')
        obs = first_round_registers if observe_last is None else observe_last
        return st, [BUF, n, rounds | (0x100 if obs else 0)], {'decisions': ds, 'n': n, 'rounds': rounds}
    return build


def native_args(dec, n, rounds):
    b = list(dec) + [0] * (64 - len(dec))
    return [('bytes', b), ('int', n, 'c_uint32'), ('int', rounds, 'c_uint32')]


def concrete(case):
    dec, n, rounds = case
    st = State()
    for i in range(64):
        st.mem[BUF + i] = dec[i] if i < len(dec) else 0
    return st, [BUF, n, rounds]


def run(chk, tier, seed):
    ll, so = llcheck.build_harness('llharness')
    mod = llcheck.load_module(ll)
    rnd = random.Random(seed)
    cases = [([rnd.randrange(16) for _ in range(9)], 3, 3) for _ in range(12)]
    llcheck.selftest(chk, mod, so, ENTRY, concrete, lambda c: native_args(*c), cases, ret='c_uint32', ret_bits=32)
    import os
    # (items, rounds, restricted to histories whose first round only registers dependencies)
    configs = [(2, 3, False), (3, 2, False), (3, 3, True)] if tier == 'quick' else [(2, 4, False), (2, 5, False), (3, 2, False), (3, 3, True), (4, 2, True), (3, 3, 'full')]
    if os.environ.get('C26_CONFIGS'):
        configs = [(int(c.split('x')[0]), int(c.split('x')[1].rstrip('rf')), 'full' if c.endswith('f') else c.endswith('r')) for c in os.environ['C26_CONFIGS'].split(',')]
    for n, rounds, restricted in configs:
        # 'full': first round registers only, but every round (also the last) takes decisions
        observe = restricted is True
        restricted = bool(restricted)
        vals = [v for v in range(1 << (n + 1)) if not (v >> 1) & 1 and ((v & 1 and v >> 1) or not restricted)]
        firsts = [[v] for v in vals] if len(vals) <= 16 else [vals[i::16] for i in range(16)]
        job = Job(ENTRY, make_build(n, rounds, restricted, observe), judge_zero, max_steps=4_000_000)
        tot = explore(chk, mod, job, firsts, nproc=16)
        for v in tot['violations'][:10]:
            dec = v['inputs']['decisions']
            args = native_args(dec, n, rounds | (0x100 if observe else 0))
            r = llcheck.native_call(so, ENTRY, args, ret='c_uint32')
            what = 'TopoSort with %d items, %d rounds, decisions %s: %s; native call %r' % (n, rounds, dec, v['what'], r)
            if r[0] == 'ret' and r[1] == 0:
                chk.inconclusive_note('model did not reproduce natively: ' + what); continue
            key = {'kind': 'topo', 'code': str(v['code'])}
            path = llcheck.make_harness_replay('C26', 'history_%d' % len(chk.violations), 'llharness', ENTRY, args, what, key, ret='c_uint32')
            chk.report(key, what, path)
    chk.cov['exhaustive'] = True
    chk.cov['explanation'] = 'states = finished paths of harness_topo: every protocol history of the stated size (which offered items complete, which dependency sets they register) is one path'
    chk.bounds.update({'items_x_rounds_x_first_round_registers_only': [list(c) for c in configs], 'outside_claim': ['histories outside the checker\'s protocol (re-registering a completed item)', 'more items/rounds than stated',
                                                                     'iteration order of offered items (results are sorted before comparison)']})
    chk.assumptions.extend(['getrandom is modelled (fixed bytes): RandomState keys are constants, so only iteration-order-independent assertions are made',
                            'rustc 1.88 LLVM IR at opt-level 1; llsym validated against native runs'])


def replay(path):
    from lib import replay as replaylib
    return replaylib.run_replay(path)
