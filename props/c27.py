"""C27 — distinct compiled entities get distinct symbol names (part assembly: to_code + add_part).

Engine A (DESIGN.md section 5, C27): through the guarded `verif_hooks::mangle::mangle_parts` (the letter table followed by
`add_part` for every part and the closing `E`, i.e. the assembly order of create_mangled_for_file) two entity
descriptors with SYMBOLIC part texts (length 1-3 over {a f 1 2 - _}, numeric indices over digits) are mangled by
the real code (real String, usize::to_string, starts_with). The harness asserts that different (kind, text) lists
give different strings and that no result equals `main`. FileName::get_components (cwd, real paths) is outside.
"""
import itertools
import random
import z3

from lib import common, llcheck
from lib.llcheck import BUF, Job, explore, model_of, eval_inputs
from lib.strcheck import judge_zero
from engine.llsym import State

LEVEL = 'model_checking'
CRATE = 'llharness_cg'
ENTRY = '@harness_mangle'
KINDS = {'M': 0, 'F': 1, 'N': 2, 'G': 3, 'L': 4, 'Z': 5, 'I': 6}
CODE = 'MFNGLZI'
ALPH = [ord(c) for c in 'af12-_']
DIGITS = [ord(c) for c in '0129']
D = 1 + 4 * 5
SHAPES = ['FN', 'FFN', 'MFN', 'FNG', 'FL', 'FZ', 'FNI', 'MN']


def build(part):
    sa, sb, la, lb = part
    st = State()
    bs = []
    for i in range(2 * D):
        bs.append(None)
    for d, shape, lens in ((0, sa, la), (1, sb, lb)):
        base = d * D
        bs[base] = len(shape)
        for i in range(4):
            o = base + 1 + 5 * i
            if i < len(shape):
                bs[o] = KINDS[shape[i]]; bs[o + 1] = lens[i]
                alpha = DIGITS if shape[i] in 'GLZ' else ALPH
                for j in range(3):
                    if j < lens[i]:
                        v = z3.BitVec('m%d' % (o + 2 + j), 8)
                        st.pc.append(z3.Or(*[v == c for c in alpha]))
                        bs[o + 2 + j] = v
                    else:
                        bs[o + 2 + j] = ord('a')
            else:
                for j in range(5):
                    bs[o + j] = 0
    for i, b in enumerate(bs):
        st.mem[BUF + i] = b
    return st, [BUF], {'bytes': bs}


def parts_for(sa, sb, maxlen):
    out = []
    for la in itertools.product(range(1, maxlen + 1), repeat=len(sa)):
        for lb in itertools.product(range(1, maxlen + 1), repeat=len(sb)):
            out.append((sa, sb, la, lb))
    return out


def decode(bs):
    out = []
    for d in range(2):
        base = d * D
        parts = []
        for i in range(min(bs[base], 4)):
            o = base + 1 + 5 * i
            ln = max(1, min(3, bs[o + 1]))
            parts.append((CODE[bs[o]] if bs[o] < 7 else 'I', bytes(bs[o + 2:o + 2 + ln]).decode('latin1')))
        out.append(parts)
    return out


def cause_of(a, b):
    """role of a collision: the documented digit escape (`2f1` for part "1" of kind F and for part "f1")"""
    if len(a) != len(b):
        return 'other'
    diffs = [(x, y) for x, y in zip(a, b) if x != y]
    ok = True
    for (ka, ta), (kb, tb) in diffs:
        if ka != kb:
            ok = False; break
        if not ((ta[:1].isdigit() and tb == ka.lower() + ta) or (tb[:1].isdigit() and ta == kb.lower() + tb)):
            ok = False; break
    return 'digit-leading part text vs the same text prefixed with the lowercase kind letter' if ok and diffs else 'other'


def run(chk, tier, seed):
    ll, so = llcheck.build_harness(CRATE)
    mod = llcheck.load_module(ll)
    rnd = random.Random(seed)

    def conc(bs):
        st = State()
        for i, b in enumerate(bs):
            st.mem[BUF + i] = b
        return st, [BUF]
    cases = []
    for _ in range(16):
        bs = []
        # concrete descriptors for the differential self-test
        for d in range(2):
            sh = rnd.choice(SHAPES)
            bs.append(len(sh))
            for i in range(4):
                if i < len(sh):
                    bs += [KINDS[sh[i]], rnd.randint(1, 3)] + [rnd.choice(DIGITS if sh[i] in 'GLZ' else ALPH) for _ in range(3)]
                else:
                    bs += [0] * 5
        cases.append(bs)
    llcheck.selftest(chk, mod, so, ENTRY, conc, lambda c: [('bytes', list(c))], cases, ret='c_uint32', ret_bits=32)
    if tier == 'quick':
        pairs = []
        for sh in ('FN', 'FL', 'MN'):
            pairs += parts_for(sh, sh, 3)
        pairs += parts_for('FFN', 'FFN', 2)[::3]
        pairs += parts_for('FN', 'FL', 2) + parts_for('FNG', 'FNG', 1)
        shapes = ['FN', 'FL', 'MN', 'FFN (lengths <= 2, every third length assignment)', 'FN vs FL', 'FNG (length 1)']
    else:
        pairs = []
        for sh in SHAPES:
            pairs += parts_for(sh, sh, 3 if len(sh) == 2 else 2)
        for a, b in (('FN', 'FL'), ('FN', 'MN'), ('FFN', 'MFN'), ('FNG', 'FNI'), ('FL', 'FZ')):
            pairs += parts_for(a, b, 2)
        shapes = SHAPES + ['cross-shape pairs FN/FL FN/MN FFN/MFN FNG/FNI FL/FZ']
    tot = explore(chk, mod, Job(ENTRY, build, judge_zero, max_steps=3_000_000), pairs, nproc=16)
    seen = set()
    for v in tot['violations']:
        bs = v['inputs']['bytes']
        a, b = decode(bs)
        cause = cause_of(a, b) if v['code'] == 1 else 'result equals main'
        key = {'kind': 'mangle-collision', 'cause': cause}
        sig = (cause, len(a))
        if sig in seen and cause != 'other':
            continue
        seen.add(sig)
        args = [('bytes', list(bs))]
        r = llcheck.native_call(so, ENTRY, args, ret='c_uint32')
        what = 'entities %s and %s get the same symbol (harness code %s); native call %r' % (a, b, v['code'], r)
        if r[0] == 'ret' and r[1] == 0:
            chk.inconclusive_note('model did not reproduce natively: ' + what); continue
        path = llcheck.make_harness_replay('C27', 'collision_%d' % len(seen), CRATE, ENTRY, args, what, key, ret='c_uint32')
        chk.report(key, what, path)
    chk.cov['exhaustive'] = True
    chk.cov['explanation'] = 'states = finished paths of harness_mangle; part texts are symbolic, descriptor shapes (kinds of parts) are enumerated'
    chk.bounds.update({'descriptor_shapes': shapes, 'shape_pairs': len(pairs), 'part_text': 'length 1..3 over {a f 1 2 - _}; indices (G/L/Z parts) over digits',
                       'outside_claim': ['FileName::get_components (needs env::current_dir and real paths): `.`->`-` replacement, `.capy` stripping, `src` skipping',
                                         'the order in which create_mangled_for_file itself assembles parts (the hook mirrors it)', 'texts longer than 3']})
    chk.assumptions.extend(['hook codegen::verif_hooks::mangle::mangle_parts pushes to_code() for every part, then add_part for every part, then E',
                            'rustc 1.88 LLVM IR at opt-level 1; llsym validated against native runs'])


def replay(path):
    from lib import replay as replaylib
    return replaylib.run_replay(path)
