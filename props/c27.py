"""C27 — distinct compiled entities get distinct symbol names (part assembly: to_code + add_part).

Engine A (DESIGN.md section 5, C27): through the guarded `verif_hooks::mangle::mangle_parts` (the letter table followed by
`add_part` for every part and the closing `E`, i.e. the assembly order of create_mangled_for_file) two entity
descriptors with SYMBOLIC part texts (length 1-3 over {a f 1 2 - _}, numeric indices over digits) are mangled by
the real code (real String, usize::to_string, starts_with). The harness asserts that different (kind, text) lists
give different strings and that no result equals `main`. FileName::get_components (cwd, real paths) is outside.
The location -> parts mapping (create_mangled_for_*) is exercised on two closed programs that put every kind of entity
next to its siblings (generic instantiations, anonymous / bound / nested lambdas, comptime blocks and their data): they
must be built, with pairwise different function symbols, and compute the expected result (closed terms).
"""
import itertools
import random
import z3

from lib import common, llcheck
from lib.llcheck import BUF, Job, explore, model_of, eval_inputs
from lib.strcheck import judge_zero
from engine.llsym import State

LEVEL = 'model_checking'
CRATE = 'llharness_cg'
ENTRY = '@harness_mangle'
KINDS = {'M': 0, 'F': 1, 'N': 2, 'G': 3, 'L': 4, 'Z': 5, 'I': 6}
CODE = 'MFNGLZI'
ALPH = [ord(c) for c in 'af12-_']
DIGITS = [ord(c) for c in '0129']
D = 1 + 4 * 5
SHAPES = ['FN', 'FFN', 'MFN', 'FNG', 'FL', 'FZ', 'FNI', 'MN']


def build(part):
    sa, sb, la, lb = part
    st = State()
    bs = []
    for i in range(2 * D):
        bs.append(None)
    for d, shape, lens in ((0, sa, la), (1, sb, lb)):
        base = d * D
        bs[base] = len(shape)
        for i in range(4):
            o = base + 1 + 5 * i
            if i < len(shape):
                bs[o] = KINDS[shape[i]]; bs[o + 1] = lens[i]
                alpha = DIGITS if shape[i] in 'GLZ' else ALPH
                for j in range(3):
                    if j < lens[i]:
                        v = z3.BitVec('m%d' % (o + 2 + j), 8)
                        st.pc.append(z3.Or(*[v == c for c in alpha]))
                        bs[o + 2 + j] = v
                    else:
                        bs[o + 2 + j] = ord('a')
            else:
                for j in range(5):
                    bs[o + j] = 0
    for i, b in enumerate(bs):
        st.mem[BUF + i] = b
    return st, [BUF], {'bytes': bs}


def parts_for(sa, sb, maxlen):
    out = []
    for la in itertools.product(range(1, maxlen + 1), repeat=len(sa)):
        for lb in itertools.product(range(1, maxlen + 1), repeat=len(sb)):
            out.append((sa, sb, la, lb))
    return out


def decode(bs):
    out = []
    for d in range(2):
        base = d * D
        parts = []
        for i in range(min(bs[base], 4)):
            o = base + 1 + 5 * i
            ln = max(1, min(3, bs[o + 1]))
            parts.append((CODE[bs[o]] if bs[o] < 7 else 'I', bytes(bs[o + 2:o + 2 + ln]).decode('latin1')))
        out.append(parts)
    return out


def cause_of(a, b):
    """role of a collision: the documented digit escape (`2f1` for part "1" of kind F and for part "f1")"""
    if len(a) != len(b):
        return 'other'
    diffs = [(x, y) for x, y in zip(a, b) if x != y]
    ok = True
    for (ka, ta), (kb, tb) in diffs:
        if ka != kb:
            ok = False; break
        if not ((ta[:1].isdigit() and tb == ka.lower() + ta) or (tb[:1].isdigit() and ta == kb.lower() + tb)):
            ok = False; break
    return 'digit-leading part text vs the same text prefixed with the lowercase kind letter' if ok and diffs else 'other'


ENTITY_PROGRAMS = [
    # (name, source, exit status = main's result & 0xff, entities that must get their own symbol)
    ('entities_a', '''idg :: (comptime T: type, x: T) -> T { x }
apply :: (f: (y: i64) -> i64, v: i64) -> i64 { f(v) }
named :: () -> i64 { comptime { 5 + 6 } }
bound :: (x: i64) -> i64 { x + comptime { 100 } }
main :: () -> i64 {
    f := (x: i64) -> i64 { (comptime { 40 + 2 }) + (comptime { 7 * 2 }) + x };
    g := (x: i64) -> i64 { x * (comptime { 3 }) + idg(i64, x) + i64.(idg(u8, 3)) };
    r := apply((y: i64) -> i64 { y + comptime { 1 } }, 5);
    named() + bound(1) + f(1) + g(2) + r
}
''', 186, ['idg<i64>', 'idg<u8>', 'apply', 'named', 'bound', 'main', 'three anonymous lambdas', 'six comptime blocks (two in one lambda) and their value / init_flag data']),
    ('entities_b', '''twice :: (comptime N: i64, x: i64) -> i64 { h := (y: i64) -> i64 { y + comptime { 2 } }; h(x) * N + h(x + 1) }
main :: () -> i64 {
    a := twice(3, 1);
    b := twice(5, 1);
    outer := (x: i64) -> i64 {
        inner := (z: i64) -> i64 { z + (comptime { 10 }) + (comptime { 20 }) };
        inner(x) + comptime { 30 }
    };
    a + b + outer(1)
}
''', (3 * 3 + 4) + (3 * 5 + 4) + (1 + 10 + 20 + 30), ['twice<3>', 'twice<5>', 'the lambda inside each instantiation', 'its comptime block', 'nested anonymous lambdas with comptime blocks']),
]


def entity_programs(chk):
    """the location -> name-parts mapping (create_mangled_for_*), on closed programs: every kind of compiled entity next to
    its siblings — a collision makes the compiler fail (duplicate / incompatible declaration) or makes two entities share
    code or data, which changes the program's result. Recorded as closed terms."""
    import os
    from lib import replay as replaylib
    common.build_capy()
    closed = []
    for name, src, want, entities in ENTITY_PROGRAMS:
        wd = common.workdir('C27')
        open(os.path.join(wd, name + '.capy'), 'w').write(src)
        rc, out = common.capy_dump(name + '.capy', wd)
        syms = [l.split()[4] for l in out.splitlines() if l.startswith('; verif-func ') and len(l.split()) > 4]
        res = common.capy_native(name + '.capy', wd)
        rec = {'program': name, 'entities': entities, 'built': res['build_rc'] == 0 and res['rc'] is not None, 'exit_status': res['rc'], 'expected_exit_status': want & 0xff,
               'function_symbols': len(syms), 'distinct_function_symbols': len(set(syms))}
        closed.append(rec)
        bad = None
        if not rec['built']:
            first = [l for l in (res['build_out'] or out).splitlines() if 'panicked' in l or l.startswith('error') or 'Declaration' in l or 'Definition' in l][:1]
            bad = 'the program is not built: %s' % (first[0][:200] if first else 'compiler failed')
        elif len(set(syms)) != len(syms):
            bad = 'two functions share a symbol: %s' % sorted({x for x in syms if syms.count(x) > 1})
        elif res['rc'] != want & 0xff:
            bad = 'the program exits with %r instead of %d (two entities share code or data)' % (res['rc'], want & 0xff)
        if bad:
            key = {'kind': 'entity-symbols', 'program': name}
            what = 'entities of %s (%s) do not all get their own symbol: %s' % (name, '; '.join(entities), bad)
            path = replaylib.make_native_replay('C27', name, src, None, want & 0xff, res.get('stdout') or '', res['rc'], what, key) if rec['built'] else \
                replaylib.make_compile_replay('C27', name, src, res['build_out'] or out, what, key)
            chk.report(key, what, path)
    chk.cov['closed_terms'] = closed


def run(chk, tier, seed):
    entity_programs(chk)
    ll, so = llcheck.build_harness(CRATE)
    mod = llcheck.load_module(ll)
    rnd = random.Random(seed)

    def conc(bs):
        st = State()
        for i, b in enumerate(bs):
            st.mem[BUF + i] = b
        return st, [BUF]
    cases = []
    for _ in range(16):
        bs = []
        # concrete descriptors for the differential self-test
        for d in range(2):
            sh = rnd.choice(SHAPES)
            bs.append(len(sh))
            for i in range(4):
                if i < len(sh):
                    bs += [KINDS[sh[i]], rnd.randint(1, 3)] + [rnd.choice(DIGITS if sh[i] in 'GLZ' else ALPH) for _ in range(3)]
                else:
                    bs += [0] * 5
        cases.append(bs)
    llcheck.selftest(chk, mod, so, ENTRY, conc, lambda c: [('bytes', list(c))], cases, ret='c_uint32', ret_bits=32)
    if tier == 'quick':
        pairs = []
        for sh in ('FN', 'FL', 'MN'):
            pairs += parts_for(sh, sh, 3)
        pairs += parts_for('FFN', 'FFN', 2)[::3]
        pairs += parts_for('FN', 'FL', 2) + parts_for('FNG', 'FNG', 1)
        shapes = ['FN', 'FL', 'MN', 'FFN (lengths <= 2, every third length assignment)', 'FN vs FL', 'FNG (length 1)']
    else:
        pairs = []
        for sh in SHAPES:
            pairs += parts_for(sh, sh, 3 if len(sh) == 2 else 2)
        for a, b in (('FN', 'FL'), ('FN', 'MN'), ('FFN', 'MFN'), ('FNG', 'FNI'), ('FL', 'FZ')):
            pairs += parts_for(a, b, 2)
        shapes = SHAPES + ['cross-shape pairs FN/FL FN/MN FFN/MFN FNG/FNI FL/FZ']
    tot = explore(chk, mod, Job(ENTRY, build, judge_zero, max_steps=3_000_000), pairs, nproc=16)
    seen = set()
    for v in tot['violations']:
        bs = v['inputs']['bytes']
        a, b = decode(bs)
        cause = cause_of(a, b) if v['code'] == 1 else 'result equals main'
        key = {'kind': 'mangle-collision', 'cause': cause}
        sig = (cause, len(a))
        if sig in seen and cause != 'other':
            continue
        seen.add(sig)
        args = [('bytes', list(bs))]
        r = llcheck.native_call(so, ENTRY, args, ret='c_uint32')
        what = 'entities %s and %s get the same symbol (harness code %s); native call %r' % (a, b, v['code'], r)
        if r[0] == 'ret' and r[1] == 0:
            chk.inconclusive_note('model did not reproduce natively: ' + what); continue
        path = llcheck.make_harness_replay('C27', 'collision_%d' % len(seen), CRATE, ENTRY, args, what, key, ret='c_uint32')
        chk.report(key, what, path)
    chk.cov['exhaustive'] = True
    chk.cov['explanation'] = 'states = finished paths of harness_mangle; part texts are symbolic, descriptor shapes (kinds of parts) are enumerated'
    chk.bounds.update({'descriptor_shapes': shapes, 'shape_pairs': len(pairs), 'part_text': 'length 1..3 over {a f 1 2 - _}; indices (G/L/Z parts) over digits',
                       'entity_programs': [p[0] for p in ENTITY_PROGRAMS],
                       'outside_claim': ['FileName::get_components (needs env::current_dir and real paths): `.`->`-` replacement, `.capy` stripping, `src` skipping',
                                         'the location -> parts mapping beyond the two closed entity programs', 'texts longer than 3']})
    chk.assumptions.extend(['hook codegen::verif_hooks::mangle::mangle_parts pushes to_code() for every part, then add_part for every part, then E',
                            'rustc 1.88 LLVM IR at opt-level 1; llsym validated against native runs'])


def replay(path):
    from lib import replay as replaylib
    return replaylib.run_replay(path)
