#!/bin/bash
# Offline setup after a fresh restore: build capy (hooks on) and the Engine-A harness module; sanity-check the solvers.
set -e
cd "$(dirname "$0")"
export CARGO_NET_OFFLINE=true
python3-vt -c "import z3; print('z3', z3.get_version_string())"
python3-vt - <<'PY'
import sys
sys.path.insert(0, '.')
from lib import common
common.build_capy()
print('capy built:', common.CAPY)
try:
    from lib import llcheck
    for crate in ('llharness', 'llharness_cg', 'llharness_diag'):
        llcheck.build_harness(crate)
        print(crate, 'built')
except ImportError:
    pass
PY
