//! verification model of internment::Intern: a leaked box compared by content
//! (interning guarantees pointer equality <=> content equality).
use std::fmt;
use std::hash::{Hash, Hasher};
use std::ops::Deref;

pub struct Intern<T: 'static + ?Sized>(&'static T);
impl<T> Intern<T> {
    pub fn new(t: T) -> Self { Intern(Box::leak(Box::new(t))) }
}
impl<T: ?Sized> Intern<T> {
    pub fn as_ref(self) -> &'static T { self.0 }
}
impl<T> From<T> for Intern<T> { fn from(t: T) -> Self { Intern::new(t) } }
impl<T: ?Sized> Clone for Intern<T> { fn clone(&self) -> Self { Intern(self.0) } }
impl<T: ?Sized> Copy for Intern<T> {}
impl<T: ?Sized> Deref for Intern<T> { type Target = T; fn deref(&self) -> &T { self.0 } }
impl<T: ?Sized> AsRef<T> for Intern<T> { fn as_ref(&self) -> &T { self.0 } }
impl<T: ?Sized + PartialEq> PartialEq for Intern<T> { fn eq(&self, o: &Self) -> bool { std::ptr::eq(self.0, o.0) || *self.0 == *o.0 } }
impl<T: ?Sized + Eq> Eq for Intern<T> {}
impl<T: ?Sized + PartialOrd> PartialOrd for Intern<T> { fn partial_cmp(&self, o: &Self) -> Option<std::cmp::Ordering> { self.0.partial_cmp(o.0) } }
impl<T: ?Sized + Ord> Ord for Intern<T> { fn cmp(&self, o: &Self) -> std::cmp::Ordering { self.0.cmp(o.0) } }
impl<T: ?Sized + Hash> Hash for Intern<T> { fn hash<H: Hasher>(&self, h: &mut H) { self.0.hash(h) } }
impl<T: ?Sized + fmt::Debug> fmt::Debug for Intern<T> { fn fmt(&self, f: &mut fmt::Formatter<'_>) -> fmt::Result { self.0.fmt(f) } }
impl<T: ?Sized + fmt::Display> fmt::Display for Intern<T> { fn fmt(&self, f: &mut fmt::Formatter<'_>) -> fmt::Result { self.0.fmt(f) } }
impl<T: Default> Default for Intern<T> { fn default() -> Self { Intern::new(T::default()) } }
