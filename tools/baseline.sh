#!/bin/bash
# Runs the repository's own test suite with the verification guard OFF (no --cfg capy_verif).
# Prints the pass/fail summary; exit 0 iff no test failed other than the two known-flaky parser tests.
cd /repo || exit 2
unset RUSTFLAGS
export CARGO_NET_OFFLINE=true
if cargo nextest --version >/dev/null 2>&1 && [ -f /w/lib/nextest.toml ]; then
  out=$(cargo nextest run --workspace --no-fail-fast --tool-config-file pb:/w/lib/nextest.toml --profile pb --test-threads 8 --offline 2>&1)
else
  out=$(cargo test --workspace --no-fail-fast --offline 2>&1)
fi
echo "$out" | tail -15
fails=$(echo "$out" | grep -E "^\s+(FAIL|SIGABRT|SIGSEGV|TIMEOUT)" | grep -v "parser::tests::repl_line\|parser::tests::source_file\|parser tests::repl_line\|parser tests::source_file" | sort -u)
if [ -n "$fails" ]; then echo "UNEXPECTED FAILURES:"; echo "$fails"; exit 1; fi
if echo "$out" | grep -q "error: could not compile\|error\[E"; then echo "BUILD FAILED"; exit 2; fi
exit 0
