#!/bin/bash
# confirm_seed.sh <ID> : in the agent's scratch worktree /tmp/seed/<ID>/wt, confirm that (1) the existing suite passes with the
# patch, (2) the demonstration fails with the patch and (3) passes without it.  Output: lines CONFIRM_*.
ID=$1; WT=/tmp/seed/$ID/wt; OUT=/tmp/seed/$ID/out
export CARGO_NET_OFFLINE=true
cd $WT || exit 2
git diff --quiet && { echo "no patch applied in $WT"; exit 2; }
git diff > /tmp/seed/$ID/current.diff
echo "== suite with the patch"
cargo nextest run --workspace --no-fail-fast --offline 2>&1 | tail -3 | tee /tmp/seed/$ID/suite.txt
grep -q "690 passed\|688 passed\|689 passed" /tmp/seed/$ID/suite.txt && echo CONFIRM_SUITE=pass || echo CONFIRM_SUITE=FAIL
echo "== demonstration with the patch"
cargo build --release -p capy --offline 2>&1 | tail -1
( cd $OUT && timeout 600 bash ./run.sh > /tmp/seed/$ID/demo_with.txt 2>&1; echo "rc=$?" >> /tmp/seed/$ID/demo_with.txt ); tail -3 /tmp/seed/$ID/demo_with.txt
echo "== demonstration without the patch"
git checkout -q -- .   # (no `git stash`: the stash is shared by all worktrees of a repository)
cargo build --release -p capy --offline 2>&1 | tail -1
( cd $OUT && timeout 600 bash ./run.sh > /tmp/seed/$ID/demo_without.txt 2>&1; echo "rc=$?" >> /tmp/seed/$ID/demo_without.txt ); tail -3 /tmp/seed/$ID/demo_without.txt
git apply /tmp/seed/$ID/current.diff
W=$(tail -1 /tmp/seed/$ID/demo_with.txt); WO=$(tail -1 /tmp/seed/$ID/demo_without.txt)
echo "CONFIRM_DEMO with_patch:$W without_patch:$WO"
