#!/bin/bash
# try_seed.sh <patch.diff> <prop> [<prop>...] : apply a seeded change to /repo, run the quick checks, undo it straight afterwards.
P=$1; shift
cd /repo || exit 2
git diff --quiet || { echo "/repo has uncommitted changes"; exit 2; }
git apply "$P" || { echo "patch does not apply"; exit 2; }
trap 'git -C /repo checkout -- . ' EXIT
cd /verif
for prop in "$@"; do
  echo "=== $prop"
  timeout 1500 ./check $prop --tier quick 2>&1 | grep -E "^VIOLATION|^OK|^INCONCLUSIVE|^KNOWN" | cut -c1-260 | head -8
  echo "exit=${PIPESTATUS[0]}"
done
