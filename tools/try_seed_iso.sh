#!/bin/bash
# try_seed_iso.sh <patch.diff> <PROP...> : like try_seed.sh, but isolated — the patch is applied to a scratch worktree of
# /repo's HEAD and the checks run from a scratch copy of /verif against that worktree (VERIF_REPO), so /repo, /verif/.build
# and /verif/evidence are untouched and other checks may run meanwhile. The scratch slot /tmp/vt_<SLOT> is kept between
# trials (warm build caches); `try_seed_iso.sh --clean` removes it.  Optional: TIER=thorough, SLOT=<name>.
SLOT=${SLOT:-a}; ROOT=/tmp/vt_$SLOT
if [ "$1" = "--clean" ]; then git -C /repo worktree remove --force $ROOT/repo >/dev/null 2>&1; rm -rf $ROOT; exit 0; fi
PATCH=$(readlink -f "$1"); shift
export CARGO_NET_OFFLINE=true
HEAD=$(git -C /repo rev-parse HEAD)
if [ -d $ROOT/repo ]; then
  git -C $ROOT/repo checkout -q -- . && git -C $ROOT/repo checkout -q --detach $HEAD || { echo "cannot reset worktree"; exit 2; }
else
  mkdir -p $ROOT
  git -C /repo worktree add --detach $ROOT/repo $HEAD >/dev/null 2>&1 || { echo "cannot create worktree"; exit 2; }
  rsync -a /verif/.build/ $ROOT/verif/.build/ --exclude run 2>/dev/null
fi
[ -f $ROOT/repo/Cargo.lock ] || cp /repo/Cargo.lock $ROOT/repo/Cargo.lock    # not tracked by the repository
trap 'git -C $ROOT/repo checkout -q -- .' EXIT
git -C $ROOT/repo apply "$PATCH" || { echo "patch does not apply"; exit 2; }
rsync -a --delete --exclude .git --exclude .build --exclude replays --exclude evidence /verif/ $ROOT/verif/
mkdir -p $ROOT/verif/evidence $ROOT/verif/replays
sed -i "s#\"/repo/#\"$ROOT/repo/#g" $ROOT/verif/llharness/Cargo.toml $ROOT/verif/llharness_cg/Cargo.toml $ROOT/verif/llharness_diag/Cargo.toml
cd $ROOT/verif
rc=0
for p in "$@"; do
  echo "=== $p"
  VERIF_REPO=$ROOT/repo timeout ${TRY_TIMEOUT:-2400} ./check $p --tier ${TIER:-quick} 2>&1 | grep -v "^KNOWN-FINDING" | tail -${TAIL:-6} | cut -c1-400
  r=${PIPESTATUS[0]}; echo "exit=$r"; [ $r -ne 0 ] && rc=$r
done
exit $rc
